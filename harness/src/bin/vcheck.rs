//! vcheck <PROPERTY> [--tier quick|thorough] [--seed N] [--lane NAME] [--scale F] [--threads N] [--replay FILE]
use serde_json::json;
use vharness::runner::{install_panic_hook, Ctx, Tier};

fn main() {
    let args: Vec<String> = std::env::args().collect();
    if args.len() < 2 {
        eprintln!("usage: vcheck <PROPERTY> [--tier quick|thorough] [--seed N] [--lane NAME] [--scale F] [--threads N] [--replay FILE]");
        std::process::exit(3);
    }
    if args[1] == "--noop" {
        println!("vcheck --noop");
        return;
    }
    let prop = args[1].clone();
    let mut tier = Tier::Quick;
    let mut seed: u64 = 1;
    let mut lane = "release".to_string();
    let mut scale = 1.0f64;
    let mut threads = std::thread::available_parallelism().map(|n| n.get()).unwrap_or(4);
    let mut replay: Option<String> = None;
    let mut shard: (u64, u64) = (0, 1);
    let mut i = 2;
    while i < args.len() {
        let a = args[i].as_str();
        let v = args.get(i + 1).cloned().unwrap_or_default();
        match a {
            "--tier" => tier = if v == "thorough" { Tier::Thorough } else { Tier::Quick },
            "--seed" => seed = v.parse().unwrap_or(1),
            "--lane" => lane = v,
            "--scale" => scale = v.parse().unwrap_or(1.0),
            "--threads" => threads = v.parse().unwrap_or(threads),
            "--replay" => replay = Some(v),
            "--shard" => {
                let mut it = v.split('/');
                shard = (it.next().unwrap_or("0").parse().unwrap_or(0), it.next().unwrap_or("1").parse().unwrap_or(1));
            }
            _ => {
                eprintln!("unknown argument {}", a);
                std::process::exit(3);
            }
        }
        i += 2;
    }
    install_panic_hook();
    let mut ctx = Ctx::new(&prop, tier, seed, &lane, scale, threads);
    ctx.shard = shard;
    if let Some(path) = replay {
        let txt = std::fs::read_to_string(&path).unwrap_or_else(|e| {
            eprintln!("cannot read replay file {}: {}", path, e);
            std::process::exit(3)
        });
        let v: serde_json::Value = serde_json::from_str(&txt).expect("replay file is not JSON");
        ctx.seed = v["seed"].as_u64().unwrap_or(seed);
        ctx.tier = if v["tier"] == "thorough" { Tier::Thorough } else { Tier::Quick };
        ctx.replay = Some((
            v["group"].as_str().unwrap_or("").to_string(),
            v["case"].as_u64().unwrap_or(0),
        ));
        ctx.replay_history = v["history"].as_array().map(|a| a.iter().filter_map(|x| x.as_u64()).collect()).unwrap_or_default();
        eprintln!("replaying {} group={} case={} seed={}", prop, v["group"], v["case"], ctx.seed);
    }
    let mut extra = json!({});
    let (rule, assumptions): (&str, Vec<&str>) = match prop.as_str() {
        "C01" => { vharness::p_graph::run_c01(&ctx); (vharness::p_graph::RULE_GRAPH, vec!["input tables come from the reference model's table of the generated reads (symmetric masks; dangling bits only towards absent keys)", "K::from_bytes / Mer::get are used to move values across the boundary (decided by C10)"]) }
        "C02" => { vharness::p_graph::run_c02(&ctx); (vharness::p_graph::RULE_GRAPH, vec!["pruned, symmetric tables only (the property's precondition)"]) }
        "C03" => { vharness::p_graph::run_c03(&ctx); (vharness::p_graph::RULE_GRAPH, vec!["graphs come from the documented direct pipeline"]) }
        "C04" => { vharness::p_graph::run_c04(&ctx); (vharness::p_graph::RULE_GRAPH, vec!["(K,P,V) combinations are the 16 listed in p_graph::C04_COMBOS"]) }
        "C06" => { vharness::p_graph::run_c06(&ctx); (vharness::p_graph::RULE_GRAPH, vec![]) }
        "C09" => { vharness::p_graph::run_c09(&ctx); (vharness::p_graph::RULE_GRAPH, vec!["input graphs are valid: every k-mer once, extensions symmetric"]) }
        "C05" => { vharness::p_filter::run_c05(&ctx); (vharness::p_filter::RULE_C05, vec!["pass counts other than the hook-free ones are produced by the verif_hooks bytes-per-unit override", "a summarizer cannot see the k-mer it summarises (unbounded generic), so keys are recovered through the table rows"]) }
        "C07" => { vharness::p_msp::run_c07(&ctx); (vharness::p_msp::RULE_C07, vec!["sequence length >= k (scan() asserts it)"]) }
        "C08" => { vharness::p_msp::run_c08(&ctx); (vharness::p_msp::RULE_C08, vec!["scores are permutations of the 4^p p-mers (the property's precondition)"]) }
        "C10" => { vharness::p_kmer::run_c10(&ctx); (vharness::p_kmer::RULE_C10, vec!["in-range arguments only: pos + n <= K, n <= 32, rank < 4^K"]) }
        "C11" => { vharness::p_kmer::run_c11(&ctx); (vharness::p_kmer::RULE_C11, vec!["storage is read through the types' Serialize impls"]) }
        "C12" => { vharness::p_rc::run_c12(&ctx); (vharness::p_rc::RULE_C12, vec![]) }
        "C13" => { vharness::p_extract::run_c13(&ctx); (vharness::p_extract::RULE_C13, vec![]) }
        "C14" => { vharness::p_dnastring::run_c14(&ctx); (vharness::p_dnastring::RULE_C14, vec!["bases handed to push/extend/set are in 0..=3"]) }
        "C15" => { vharness::p_dnastring::run_c15(&ctx); (vharness::p_dnastring::RULE_C15, vec!["Debug of views >= 256 bases is the field summary the implementation documents by construction"]) }
        "C16" => { vharness::p_ascii::run_c16(&ctx); (vharness::p_ascii::RULE_C16, vec!["&str constructors are driven with chars < U+0100 only"]) }
        "C17" => { vharness::p_lmer::run_c17(&ctx); (vharness::p_lmer::RULE_C17, vec!["packed writes carry zero bits below the run"]) }
        "C18" => { vharness::p_iter::run_c18(&ctx); (vharness::p_iter::RULE_C18, vec![]) }
        "C19" => { extra = vharness::p_finish::run_c19(&ctx, None); (vharness::p_finish::RULE_C19, vec!["schedules are sampled (pool sizes, delays, noise), not enumerated"]) }
        "C20" => { vharness::p_export::run_c20(&ctx); (vharness::p_export::RULE_C20, vec!["serde_json is the only serde format available offline"]) }
        _ => {
            eprintln!("unknown property {}", prop);
            std::process::exit(3);
        }
    };
    let code = ctx.finish(rule, &assumptions, extra);
    std::process::exit(code);
}
