//! Hostile workload generators for read sets.

use crate::model::{rc, S};
use crate::util::Rng;

/// Generate 1..=8 reads for k-mer length `k`, built to contain repeated k-mers, palindromes,
/// hairpins, tandem repeats (tight cycles), homopolymers, both-strand copies, SNP variants
/// (bubbles), sub-reads, too-short and empty reads.
pub fn gen_reads(rng: &Rng, k: usize) -> Vec<S> {
    let alpha = *rng.pick(&[1usize, 2, 2, 3, 3, 4, 4, 4, 4]);
    let nreads = rng.range(1, 8);
    // keep large-K cases from exploding in run time
    let span = if k <= 8 { 40 } else if k <= 16 { 30 } else { 24 };
    let base: S = {
        let n = k + rng.below(span);
        rng.bases(n, alpha)
    };
    let mut reads: Vec<S> = Vec::new();
    for _ in 0..nreads {
        let r: S = match rng.below(12) {
            0 | 1 => {
                let n = rng.below(3 * k + 10);
                rng.bases(n, alpha)
            }
            2 => base.clone(),
            3 => rc(&base),
            4 => {
                // tandem repeat of a unit of length 1..=k
                let ulen = rng.range(1, k);
                let u = rng.bases(ulen, 4);
                let n = k + rng.below(2 * k + 4);
                (0..n).map(|i| u[i % u.len()]).collect()
            }
            5 => {
                // hairpin u . [mid] . rc(u): with odd K gives links through the same side
                let ulen = k / 2 + rng.below(k + 3);
                let u = rng.bases(ulen.max(1), alpha.max(2));
                let mut v = u.clone();
                if rng.chance(1, 2) {
                    v.push(rng.base());
                }
                v.extend(rc(&u));
                v
            }
            6 => {
                // random sub-interval of base, maybe reverse-complemented
                let a = rng.below(base.len());
                let b = a + rng.below(base.len() - a + 1);
                let mut v = base[a..b].to_vec();
                if rng.chance(1, 2) {
                    v = rc(&v);
                }
                v
            }
            7 => {
                let b = rng.base();
                vec![b; k + rng.below(k + 1)]
            }
            8 => {
                // SNP variant of base (bubble / branch)
                let mut v = base.clone();
                let p = rng.below(v.len());
                v[p] = (v[p] + 1 + rng.below(3) as u8) & 3;
                if rng.chance(1, 3) {
                    v = rc(&v);
                }
                v
            }
            9 => {
                // copy of an earlier read (repeat counts), maybe rc
                if reads.is_empty() {
                    base.clone()
                } else {
                    let r = rng.pick(&reads).clone();
                    if rng.chance(1, 2) {
                        rc(&r)
                    } else {
                        r
                    }
                }
            }
            10 => {
                // palindrome-rich: w . rc(w) repeated
                let wl = rng.range(1, (k / 2).max(1));
                let w = rng.bases(wl, 4);
                let mut unit = w.clone();
                unit.extend(rc(&w));
                let n = k + rng.below(2 * k);
                (0..n).map(|i| unit[i % unit.len()]).collect()
            }
            _ => {
                // shorter than k or empty
                let n = rng.below(k);
                rng.bases(n, alpha)
            }
        };
        reads.push(r);
    }
    reads
}

/// a random genome with planted repeats, for the large-scale cases
pub fn gen_genome(rng: &Rng, len: usize, nrepeats: usize, replen: usize) -> S {
    let mut g = rng.bases(len, 4);
    for _ in 0..nrepeats {
        if len <= 2 * replen + 2 {
            break;
        }
        let a = rng.below(len - replen);
        let b = rng.below(len - replen);
        let seg: S = g[a..a + replen].to_vec();
        let seg = if rng.chance(1, 2) { rc(&seg) } else { seg };
        g[b..b + replen].copy_from_slice(&seg);
    }
    g
}
