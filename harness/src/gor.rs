//! Graph oracles: boundary-level observation of library graphs and comparison with the reference model.
//! Nothing here uses `is_compressed`, and `find_link` answers are only ever *checked*, never trusted.

use crate::ktypes::{kfrom, kstr};
use crate::model::*;
use boomphf::hashmap::BoomHashMap2;
use debruijn::compression::CompressionSpec;
use debruijn::dna_string::DnaString;
use debruijn::filter::{filter_kmers, CountFilter, KmerSummarizer};
use debruijn::graph::{BaseGraph, DebruijnGraph};
use debruijn::{Dir, Exts, Kmer, Mer};
use std::cell::RefCell;
use std::collections::{BTreeMap, BTreeSet, HashMap};
use std::fmt::Debug;

pub fn dna_seqs(seqs: &[Seq]) -> Vec<(DnaString, Exts, u32)> {
    seqs.iter()
        .map(|s| (DnaString::from_bytes(&s.bases), Exts::new(s.exts), s.label))
        .collect()
}

pub fn whole_reads(reads: &[S]) -> Vec<Seq> {
    reads
        .iter()
        .enumerate()
        .map(|(i, r)| Seq {
            bases: r.clone(),
            exts: 0,
            label: i as u32,
        })
        .collect()
}

/// library k-mer table through CountFilter(thr); rows sorted by key
pub fn lib_count_table<K: Kmer>(
    seqs: &[Seq],
    stranded: bool,
    thr: usize,
    report_all: bool,
) -> (Vec<(K, (Exts, u16))>, Vec<K>) {
    let input = dna_seqs(seqs);
    let (idx, all): (BoomHashMap2<K, Exts, u16>, Vec<K>) = filter_kmers(
        &input,
        &Box::new(CountFilter::new(thr)),
        stranded,
        report_all,
        1,
    );
    let mut v: Vec<(K, (Exts, u16))> = idx.iter().map(|(k, e, c)| (*k, (*e, *c))).collect();
    v.sort_by_key(|x| x.0);
    (v, all)
}

/// Spy summarizer: returns, as the summary, the ordered list of (label, mask) items it was handed.
pub struct SpySummarizer {
    pub min_obs: usize,
    pub calls: RefCell<u64>,
}

impl SpySummarizer {
    pub fn new(min_obs: usize) -> Self {
        SpySummarizer {
            min_obs,
            calls: RefCell::new(0),
        }
    }
}

impl KmerSummarizer<u32, Vec<(u32, u8)>> for SpySummarizer {
    fn summarize<K, F: Iterator<Item = (K, Exts, u32)>>(&self, items: F) -> (bool, Exts, Vec<(u32, u8)>) {
        *self.calls.borrow_mut() += 1;
        let mut all = 0u8;
        let mut out = Vec::new();
        for (_, e, d) in items {
            all |= e.val;
            out.push((d, e.val));
        }
        (out.len() >= self.min_obs, Exts::new(all), out)
    }
}

#[derive(Clone, Debug)]
pub struct NodeView<D> {
    pub seq: S,
    pub exts: u8,
    pub data: D,
}

pub fn views<K: Kmer, D: Clone>(g: &BaseGraph<K, D>) -> Vec<NodeView<D>> {
    (0..g.len())
        .map(|i| NodeView {
            seq: g.sequences.get(i).bytes(),
            exts: g.exts[i].val,
            data: g.data[i].clone(),
        })
        .collect()
}

/// payload used by the monitors: colour + the ids of the per-k-mer payloads folded into it
#[derive(Clone, Debug, PartialEq, Eq)]
pub struct Pay {
    pub colour: u8,
    pub ids: Vec<u32>,
}

#[derive(Default, Debug)]
pub struct SpecLog {
    pub reduces: u64,
    pub joins: Vec<(u32, u32, bool)>,
}

/// Spy compression spec: reduce = concatenate ids (keep the accumulator's colour),
/// join = always / colour equality; every call is logged.
pub struct SpySpec {
    pub by_colour: bool,
    pub log: RefCell<SpecLog>,
}

impl SpySpec {
    pub fn new(by_colour: bool) -> Self {
        SpySpec {
            by_colour,
            log: RefCell::new(SpecLog::default()),
        }
    }
    pub fn reset(&self) {
        *self.log.borrow_mut() = SpecLog::default();
    }
}

impl CompressionSpec<Pay> for SpySpec {
    fn reduce(&self, mut acc: Pay, item: &Pay) -> Pay {
        self.log.borrow_mut().reduces += 1;
        acc.ids.extend_from_slice(&item.ids);
        acc
    }
    fn join_test(&self, a: &Pay, b: &Pay) -> bool {
        let r = !self.by_colour || a.colour == b.colour;
        self.log
            .borrow_mut()
            .joins
            .push((a.ids[0], b.ids[0], r));
        r
    }
}

/// Input table for the compression monitors
#[derive(Clone, Debug)]
pub struct KeyInfo {
    pub mask: u8,
    pub id: u32,
    pub colour: u8,
}

#[derive(Default, Debug, Clone)]
pub struct LStats {
    pub nodes: u64,
    pub merged_nodes: u64,
    pub keys: u64,
    pub palindromes: u64,
    pub steps: u64,
}

/// C01: lossless partition, steps follow recorded extensions, payload = fold over exactly the node's keys.
/// `presence_steps`: "recorded extension" means "both k-mers are in the table" (no-exts entry point).
pub fn check_lossless(
    nodes: &[NodeView<Pay>],
    table: &BTreeMap<S, KeyInfo>,
    k: usize,
    stranded: bool,
    presence_steps: bool,
    reduces_logged: Option<u64>,
) -> Result<LStats, String> {
    let mut st = LStats::default();
    let mut seen: BTreeMap<S, (usize, usize)> = BTreeMap::new();
    for (ni, n) in nodes.iter().enumerate() {
        if n.seq.len() < k {
            return Err(format!("node {} has length {} < K", ni, n.seq.len()));
        }
        if n.seq.iter().any(|b| *b > 3) {
            return Err(format!("node {} has an invalid base", ni));
        }
        st.nodes += 1;
        if n.seq.len() > k {
            st.merged_nodes += 1;
        }
        let mut ids: Vec<u32> = Vec::new();
        let nw = n.seq.len() - k + 1;
        for i in 0..nw {
            let w = &n.seq[i..i + k];
            let (c, _) = canon(w, stranded);
            let info = table.get(&c).ok_or_else(|| {
                format!(
                    "node {} offset {} holds k-mer {} which is not in the input table",
                    ni,
                    i,
                    crate::util::ascii(w)
                )
            })?;
            if let Some((pn, po)) = seen.insert(c.clone(), (ni, i)) {
                return Err(format!(
                    "k-mer {} occurs twice: node {} offset {} and node {} offset {}",
                    crate::util::ascii(&c),
                    pn,
                    po,
                    ni,
                    i
                ));
            }
            ids.push(info.id);
            if is_pal(&c, stranded) {
                st.palindromes += 1;
            }
        }
        // steps
        for i in 0..nw.saturating_sub(1) {
            st.steps += 1;
            if presence_steps {
                continue; // both windows are table keys (checked above)
            }
            let w1 = &n.seq[i..i + k];
            let w2 = &n.seq[i + 1..i + 1 + k];
            let right_base = n.seq[i + k];
            let left_base = n.seq[i];
            let (c1, f1) = canon(w1, stranded);
            let (c2, f2) = canon(w2, stranded);
            let m1 = table[&c1].mask;
            let m2 = table[&c2].mask;
            let ok1_fwd = m1 & bit(R, right_base) != 0;
            let ok1_rev = m1 & bit(L, 3 - right_base) != 0;
            let ok1 = if is_pal(&c1, stranded) {
                ok1_fwd || ok1_rev
            } else if f1 {
                ok1_rev
            } else {
                ok1_fwd
            };
            let ok2_fwd = m2 & bit(L, left_base) != 0;
            let ok2_rev = m2 & bit(R, 3 - left_base) != 0;
            let ok2 = if is_pal(&c2, stranded) {
                ok2_fwd || ok2_rev
            } else if f2 {
                ok2_rev
            } else {
                ok2_fwd
            };
            if !ok1 || !ok2 {
                return Err(format!(
                    "node {} step {}->{}: ({}+1)-mer {} is not recorded as an extension of {}",
                    ni,
                    i,
                    i + 1,
                    k,
                    crate::util::ascii(&n.seq[i..i + k + 1]),
                    if !ok1 { "the left k-mer" } else { "the right k-mer" }
                ));
            }
        }
        let mut got = n.data.ids.clone();
        got.sort();
        ids.sort();
        if got != ids {
            return Err(format!(
                "node {} payload ids {:?} != ids of its k-mers {:?}",
                ni, got, ids
            ));
        }
    }
    if seen.len() != table.len() {
        let missing: Vec<String> = table
            .keys()
            .filter(|k| !seen.contains_key(*k))
            .take(3)
            .map(|k| crate::util::ascii(k))
            .collect();
        return Err(format!(
            "{} input k-mers are in no node, e.g. {:?}",
            table.len() - seen.len(),
            missing
        ));
    }
    st.keys = seen.len() as u64;
    if let Some(r) = reduces_logged {
        let expect = st.keys - st.nodes;
        if r != expect {
            return Err(format!(
                "reduce was called {} times, expected keys - nodes = {}",
                r, expect
            ));
        }
    }
    Ok(st)
}

pub fn node_partition<D>(nodes: &[NodeView<D>], k: usize, stranded: bool) -> BTreeSet<BTreeSet<S>> {
    nodes
        .iter()
        .map(|n| {
            n.seq
                .windows(k)
                .map(|w| canon_s(w, stranded))
                .collect::<BTreeSet<S>>()
        })
        .collect()
}

/// C02: node partition == components of the mergeable-link relation; every in-node step was
/// approved by a logged join_test.
pub fn check_maximal<D>(
    nodes: &[NodeView<D>],
    rows: &BTreeMap<S, u8>,
    k: usize,
    stranded: bool,
    join: &dyn Fn(&S, &S) -> bool,
) -> Result<(), String> {
    let got = node_partition(nodes, k, stranded);
    let exp = partition(rows, stranded, join);
    if got == exp {
        return Ok(());
    }
    // explain
    for cls in &exp {
        if !got.contains(cls) {
            // under-merge or over-merge?
            let holder: Vec<&BTreeSet<S>> = got.iter().filter(|g| !g.is_disjoint(cls)).collect();
            let kind = if holder.len() > 1 {
                "under-merge: mergeable k-mers are spread over several nodes"
            } else {
                "over-merge: a node contains k-mers that must not be joined"
            };
            let show = |s: &BTreeSet<S>| -> Vec<String> {
                s.iter().take(6).map(|x| crate::util::ascii(x)).collect()
            };
            return Err(format!(
                "partition mismatch ({}): expected class {:?}; library nodes touching it: {:?}",
                kind,
                show(cls),
                holder.iter().map(|h| show(h)).collect::<Vec<_>>()
            ));
        }
    }
    Err("partition mismatch (library has an extra class)".to_string())
}

/// every in-node step must have been approved by the predicate: the true join_test pairs must
/// connect all ids of a node
pub fn check_join_log(nodes: &[NodeView<Pay>], log: &SpecLog) -> Result<(), String> {
    let mut uf: HashMap<u32, u32> = HashMap::new();
    fn find(uf: &mut HashMap<u32, u32>, x: u32) -> u32 {
        // iterative find with full path compression (a 10^5-node line would otherwise be quadratic)
        let mut root = x;
        loop {
            let p = *uf.entry(root).or_insert(root);
            if p == root {
                break;
            }
            root = p;
        }
        let mut cur = x;
        while cur != root {
            let p = uf[&cur];
            uf.insert(cur, root);
            cur = p;
        }
        root
    }
    for (a, b, r) in &log.joins {
        if *r {
            let (ra, rb) = (find(&mut uf, *a), find(&mut uf, *b));
            uf.insert(ra, rb);
        }
    }
    for (ni, n) in nodes.iter().enumerate() {
        if n.data.ids.len() > 1 {
            let r0 = find(&mut uf, n.data.ids[0]);
            for id in &n.data.ids[1..] {
                if find(&mut uf, *id) != r0 {
                    return Err(format!(
                        "node {} merged payload ids {:?} without an accepting join_test connecting them",
                        ni, n.data.ids
                    ));
                }
            }
        }
    }
    Ok(())
}

/// Summary of a graph used to compare construction routes.
#[derive(Debug, Clone, PartialEq, Eq)]
pub struct GraphSummary {
    pub partition: BTreeSet<BTreeSet<S>>,
    /// min key of class -> sorted payload ids
    pub payload: BTreeMap<S, Vec<u32>>,
    /// canonical (K+1)-mers: internal to nodes and junctions denoted by extension bits
    pub adjacency: BTreeSet<S>,
}

pub fn node_adjacency<D>(nodes: &[NodeView<D>], k: usize, stranded: bool) -> BTreeSet<S> {
    let mut adj = BTreeSet::new();
    for n in nodes {
        for w in n.seq.windows(k + 1) {
            adj.insert(canon_s(w, stranded));
        }
        let first = &n.seq[..k];
        let last = &n.seq[n.seq.len() - k..];
        for b in 0..4u8 {
            if n.exts & bit(L, b) != 0 {
                let mut w = vec![b];
                w.extend_from_slice(first);
                adj.insert(canon_s(&w, stranded));
            }
            if n.exts & bit(R, b) != 0 {
                let mut w = last.to_vec();
                w.push(b);
                adj.insert(canon_s(&w, stranded));
            }
        }
    }
    adj
}

pub fn summarize(nodes: &[NodeView<Vec<u32>>], k: usize, stranded: bool) -> GraphSummary {
    let mut payload = BTreeMap::new();
    for n in nodes {
        let cls: BTreeSet<S> = n.seq.windows(k).map(|w| canon_s(w, stranded)).collect();
        let mut d = n.data.clone();
        d.sort();
        payload.insert(cls.iter().next().unwrap().clone(), d);
    }
    GraphSummary {
        partition: node_partition(nodes, k, stranded),
        payload,
        adjacency: node_adjacency(nodes, k, stranded),
    }
}

pub fn diff_summaries(a: &GraphSummary, b: &GraphSummary, na: &str, nb: &str) -> Result<(), String> {
    if a.partition != b.partition {
        let only_a: Vec<Vec<String>> = a
            .partition
            .difference(&b.partition)
            .take(2)
            .map(|c| c.iter().take(5).map(|x| crate::util::ascii(x)).collect())
            .collect();
        let only_b: Vec<Vec<String>> = b
            .partition
            .difference(&a.partition)
            .take(2)
            .map(|c| c.iter().take(5).map(|x| crate::util::ascii(x)).collect())
            .collect();
        return Err(format!(
            "node partition differs between {} and {}: only in {}: {:?}; only in {}: {:?}",
            na, nb, na, only_a, nb, only_b
        ));
    }
    if a.payload != b.payload {
        for (k, v) in &a.payload {
            if b.payload.get(k) != Some(v) {
                return Err(format!(
                    "payload of node containing {} differs: {} has {:?}, {} has {:?}",
                    crate::util::ascii(k),
                    na,
                    v,
                    nb,
                    b.payload.get(k)
                ));
            }
        }
        return Err(format!("payload differs between {} and {}", na, nb));
    }
    if a.adjacency != b.adjacency {
        let only_a: Vec<String> = a
            .adjacency
            .difference(&b.adjacency)
            .take(3)
            .map(|x| crate::util::ascii(x))
            .collect();
        let only_b: Vec<String> = b
            .adjacency
            .difference(&a.adjacency)
            .take(3)
            .map(|x| crate::util::ascii(x))
            .collect();
        return Err(format!(
            "adjacency differs between {} and {}: only in {}: {:?}; only in {}: {:?}",
            na, nb, na, only_a, nb, only_b
        ));
    }
    Ok(())
}

fn dir_of(side: u8) -> Dir {
    if side == L {
        Dir::Left
    } else {
        Dir::Right
    }
}
pub fn side_of(d: Dir) -> u8 {
    match d {
        Dir::Left => L,
        Dir::Right => R,
    }
}

/// Terminal index of a graph, built from node sequences only.
pub struct TermIndex {
    pub first: HashMap<S, Vec<usize>>,
    pub last: HashMap<S, Vec<usize>>,
    pub k: usize,
    pub stranded: bool,
    pub seqs: Vec<S>,
}

impl TermIndex {
    pub fn new(seqs: Vec<S>, k: usize, stranded: bool) -> Self {
        let mut first: HashMap<S, Vec<usize>> = HashMap::new();
        let mut last: HashMap<S, Vec<usize>> = HashMap::new();
        for (i, s) in seqs.iter().enumerate() {
            first.entry(s[..k].to_vec()).or_default().push(i);
            last.entry(s[s.len() - k..].to_vec()).or_default().push(i);
        }
        TermIndex {
            first,
            last,
            k,
            stranded,
            seqs,
        }
    }

    /// all answers `find_link(q, dir)` may legitimately give (empty = must be None)
    pub fn links(&self, q: &[u8], dir: u8) -> Vec<(usize, u8, bool)> {
        let mut out = Vec::new();
        let rq = rc(q);
        if dir == L {
            if let Some(v) = self.last.get(q) {
                out.extend(v.iter().map(|m| (*m, R, false)));
            }
            if !self.stranded {
                if let Some(v) = self.first.get(&rq) {
                    out.extend(v.iter().map(|m| (*m, L, true)));
                }
            }
        } else {
            if let Some(v) = self.first.get(q) {
                out.extend(v.iter().map(|m| (*m, L, false)));
            }
            if !self.stranded {
                if let Some(v) = self.last.get(&rq) {
                    out.extend(v.iter().map(|m| (*m, R, true)));
                }
            }
        }
        out
    }

    pub fn is_pal_single(&self, node: usize) -> bool {
        self.seqs[node].len() == self.k && is_pal(&self.seqs[node], self.stranded)
    }
}

#[derive(Default, Debug, Clone)]
pub struct EStats {
    pub edges: u64,
    pub flips: u64,
    pub self_links: u64,
    pub hairpins: u64,
    pub pal_nodes: u64,
    pub queries: u64,
    pub absent_queries: u64,
}

fn norm_edge(e: &(usize, Dir, bool)) -> (usize, u8, bool) {
    (e.0, side_of(e.1), e.2)
}

/// C03 (edge part): every extension bit resolves, `edges`/`find_link` agree with the terminal
/// index, arrival side / flip are right, edges are symmetric, and the adjacency set equals `expected_adj`.
pub fn check_edges<K: Kmer, D: Debug>(
    g: &DebruijnGraph<K, D>,
    expected_adj: Option<&BTreeSet<S>>,
    require_resolved: bool,
) -> Result<EStats, String> {
    check_edges_opts(g, expected_adj, require_resolved, true)
}

/// `symmetry = false`: for graphs whose extensions were deliberately pruned one-sidedly
/// (fix_exts against a valid-node set keeps the invalid nodes' own extensions)
pub fn check_edges_opts<K: Kmer, D: Debug>(
    g: &DebruijnGraph<K, D>,
    expected_adj: Option<&BTreeSet<S>>,
    require_resolved: bool,
    symmetry: bool,
) -> Result<EStats, String> {
    let k = K::k();
    let stranded = g.base.stranded;
    let seqs: Vec<S> = (0..g.len()).map(|i| g.get_node(i).sequence().bytes()).collect();
    let ti = TermIndex::new(seqs, k, stranded);
    let mut st = EStats::default();
    let mut adj: BTreeSet<S> = BTreeSet::new();
    // all reported edges, per node side
    let mut reported: Vec<[Vec<(usize, u8, bool)>; 2]> = Vec::with_capacity(g.len());
    for i in 0..g.len() {
        let node = g.get_node(i);
        let seq = &ti.seqs[i];
        for w in seq.windows(k + 1) {
            adj.insert(canon_s(w, stranded));
        }
        if ti.is_pal_single(i) {
            st.pal_nodes += 1;
        }
        let exts = node.exts().val;
        let mut per_side: [Vec<(usize, u8, bool)>; 2] = [Vec::new(), Vec::new()];
        for side in [L, R] {
            let term: S = if side == L {
                seq[..k].to_vec()
            } else {
                seq[seq.len() - k..].to_vec()
            };
            let lib_edges: Vec<(usize, u8, bool)> =
                node.edges(dir_of(side)).iter().map(norm_edge).collect();
            let mut expect_edges: Vec<(usize, u8, bool)> = Vec::new();
            for b in 0..4u8 {
                if exts & bit(side, b) == 0 {
                    continue;
                }
                let q = ext_str(&term, side, b);
                let allowed = ti.links(&q, side);
                let got = g
                    .find_link(kfrom::<K>(&q), dir_of(side))
                    .map(|e| norm_edge(&e));
                st.queries += 1;
                match got {
                    None => {
                        if !allowed.is_empty() {
                            return Err(format!(
                                "node {} side {} base {}: extension k-mer {} is a terminal k-mer of node {} but find_link returned None",
                                i, side, b, crate::util::ascii(&q), allowed[0].0
                            ));
                        }
                        if require_resolved {
                            return Err(format!(
                                "node {} side {} has extension bit {} but no node starts/ends with {} (dangling extension)",
                                i, side, b, crate::util::ascii(&q)
                            ));
                        }
                    }
                    Some(e) => {
                        if !allowed.contains(&e) {
                            return Err(format!(
                                "node {} side {} base {}: find_link({}) = {:?}, but the terminal index allows only {:?}",
                                i, side, b, crate::util::ascii(&q), e, allowed
                            ));
                        }
                        if stranded && e.2 {
                            return Err(format!("flip=true edge in a stranded graph at node {}", i));
                        }
                        // consistency of (dir, arrival side, flip)
                        let consistent = matches!(
                            (side, e.1, e.2),
                            (0, 1, false) | (0, 0, true) | (1, 0, false) | (1, 1, true)
                        );
                        if !consistent {
                            return Err(format!(
                                "node {} side {}: inconsistent (side, arrival, flip) = {:?}",
                                i, side, e
                            ));
                        }
                        expect_edges.push(e);
                        let w: S = if side == R {
                            let mut w = term.clone();
                            w.push(b);
                            w
                        } else {
                            let mut w = vec![b];
                            w.extend_from_slice(&term);
                            w
                        };
                        adj.insert(canon_s(&w, stranded));
                        st.edges += 1;
                        if e.2 {
                            st.flips += 1;
                        }
                        if e.0 == i {
                            st.self_links += 1;
                            if e.1 == side {
                                st.hairpins += 1;
                            }
                        }
                    }
                }
            }
            if lib_edges != expect_edges {
                return Err(format!(
                    "node {} side {}: edges() = {:?} but resolving its extension bits one by one gives {:?}",
                    i, side, lib_edges, expect_edges
                ));
            }
            per_side[side as usize] = lib_edges;
        }
        reported.push(per_side);
    }
    // symmetry
    for u in 0..(if symmetry { g.len() } else { 0 }) {
        for side in [L, R] {
            for e in &reported[u][side as usize] {
                let (v, vin, flip) = *e;
                let back_exact = reported[v][vin as usize].contains(&(u, side, flip));
                let pal = ti.is_pal_single(u) || ti.is_pal_single(v);
                let back_any = reported[v][0].iter().any(|x| x.0 == u)
                    || reported[v][1].iter().any(|x| x.0 == u);
                if !(back_exact || (pal && back_any)) {
                    return Err(format!(
                        "edge node {} side {} -> {:?} has no return edge from node {} side {} (its edges there: {:?})",
                        u, side, e, v, vin, reported[v][vin as usize]
                    ));
                }
            }
        }
    }
    if let Some(exp) = expected_adj {
        if &adj != exp {
            let missing: Vec<String> = exp.difference(&adj).take(3).map(|x| crate::util::ascii(x)).collect();
            let extra: Vec<String> = adj.difference(exp).take(3).map(|x| crate::util::ascii(x)).collect();
            return Err(format!(
                "adjacency set of the graph != (K+1)-mers observed between retained k-mers: missing {:?}, spurious {:?}",
                missing, extra
            ));
        }
    }
    Ok(st)
}

/// find_link for arbitrary queries (present and absent) against the terminal index
pub fn check_find_link_queries<K: Kmer, D: Debug>(
    g: &DebruijnGraph<K, D>,
    ti: &TermIndex,
    queries: &[S],
    st: &mut EStats,
) -> Result<(), String> {
    for q in queries {
        for side in [L, R] {
            let allowed = ti.links(q, side);
            let got = g.find_link(kfrom::<K>(q), dir_of(side)).map(|e| norm_edge(&e));
            st.queries += 1;
            if allowed.is_empty() {
                st.absent_queries += 1;
            }
            let ok = match got {
                None => allowed.is_empty(),
                Some(e) => allowed.contains(&e),
            };
            if !ok {
                return Err(format!(
                    "find_link({}, side {}) = {:?}; terminal index allows {:?}",
                    crate::util::ascii(q),
                    side,
                    got,
                    allowed
                ));
            }
        }
    }
    Ok(())
}

/// all k-mers of length k
pub fn all_kmers_of_len(k: usize) -> Vec<S> {
    let n = 1usize << (2 * k);
    (0..n)
        .map(|v| (0..k).map(|i| ((v >> (2 * (k - 1 - i))) & 3) as u8).collect())
        .collect()
}

/// Hand-built graph (arbitrary node sequences with pairwise distinct first k-mers and pairwise
/// distinct last k-mers, arbitrary extension bits): find_link for EVERY k-mer in both directions
/// must say "found" exactly when some node starts / ends with it (or its reverse complement on the
/// other end when unstranded); edges() must be the resolvable extension bits.
pub fn check_handbuilt<K: Kmer + Send + Sync>(
    rng: &crate::util::Rng,
    parallel: bool,
) -> Result<(u64, u64, u64), String> {
    let k = K::k();
    let stranded = rng.chance(1, 2);
    let mut b: BaseGraph<K, u32> = BaseGraph::new(stranded);
    let mut firsts: std::collections::HashSet<S> = std::collections::HashSet::new();
    let mut lasts: std::collections::HashSet<S> = std::collections::HashSet::new();
    let nn = rng.range(1, 6);
    let mut pal_terms = 0u64;
    for i in 0..nn {
        let len = k + *rng.pick(&[0usize, 1, 1, 2, 3, 6]);
        let mut s = rng.bases(len, *rng.pick(&[2usize, 4, 4]));
        if rng.chance(1, 3) && k % 2 == 0 {
            // palindromic terminal k-mer on a node longer than K
            let h = rng.bases(k / 2, 4);
            let mut p = h.clone();
            p.extend(rc(&h));
            if rng.chance(1, 2) {
                s[..k].copy_from_slice(&p);
            } else {
                s[len - k..].copy_from_slice(&p);
            }
        }
        let f = s[..k].to_vec();
        let l = s[len - k..].to_vec();
        if firsts.contains(&f) || lasts.contains(&l) {
            continue;
        }
        if is_pal(&f, false) || is_pal(&l, false) {
            pal_terms += 1;
        }
        firsts.insert(f);
        lasts.insert(l);
        b.add(&s, Exts::new((rng.next() & 0xff) as u8), i as u32);
    }
    let g = if parallel { b.finish() } else { b.finish_serial() };
    let seqs: Vec<S> = (0..g.len()).map(|i| g.get_node(i).sequence().bytes()).collect();
    let ti = TermIndex::new(seqs, k, stranded);
    let mut st = EStats::default();
    let queries = all_kmers_of_len(k);
    check_find_link_queries(&g, &ti, &queries, &mut st).map_err(|e| format!("hand-built graph (stranded={}, nodes {:?}): {}", stranded, ti.seqs.iter().map(|s| crate::util::ascii(s)).collect::<Vec<_>>(), e))?;
    // edges() == resolvable bits
    for i in 0..g.len() {
        let node = g.get_node(i);
        let s = &ti.seqs[i];
        for side in [L, R] {
            let term: S = if side == L { s[..k].to_vec() } else { s[s.len() - k..].to_vec() };
            let got: Vec<(usize, u8, bool)> = node.edges(dir_of(side)).iter().map(norm_edge).collect();
            let mut n_exp = 0;
            for bb in 0..4u8 {
                if node.exts().val & bit(side, bb) != 0 && !ti.links(&ext_str(&term, side, bb), side).is_empty() {
                    n_exp += 1;
                }
            }
            if got.len() != n_exp {
                return Err(format!("hand-built graph: node {} side {} reports {} edges, {} of its extension bits resolve to node ends", i, side, got.len(), n_exp));
            }
        }
    }
    Ok((st.queries, st.absent_queries, pal_terms))
}

/// Oriented sequence of a path entry
pub fn oriented(seq: &[u8], d: Dir) -> S {
    match d {
        Dir::Left => seq.to_vec(),
        Dir::Right => rc(seq),
    }
}

/// A walk is valid if every step follows a reported edge; returns the model's spelled sequence
pub fn check_walk<K: Kmer, D: Debug>(
    g: &DebruijnGraph<K, D>,
    path: &[(usize, Dir)],
    no_repeat: bool,
) -> Result<(), String> {
    let k = K::k();
    if path.is_empty() {
        return Ok(());
    }
    let mut used = BTreeSet::new();
    for (i, (n, _)) in path.iter().enumerate() {
        if *n >= g.len() {
            return Err(format!("path entry {} names node {} out of range", i, n));
        }
        if !used.insert(*n) && no_repeat {
            return Err(format!("best path repeats node {}: {:?}", n, path));
        }
    }
    let mut expect: S = oriented(&g.get_node(path[0].0).sequence().bytes(), path[0].1);
    let mut windows: Vec<S> = expect.windows(k).map(|w| w.to_vec()).collect();
    for i in 1..path.len() {
        let (a, da) = path[i - 1];
        let (b, db) = path[i];
        let out_side = match da {
            Dir::Left => Dir::Right,
            Dir::Right => Dir::Left,
        };
        let mut edges = g.get_node(a).edges(out_side);
        // both sides of a palindromic single-k-mer node are the same end: tolerate either side
        let pal_single = |n: usize| {
            let s = g.get_node(n).sequence().bytes();
            s.len() == k && is_pal(&s, g.base.stranded)
        };
        if pal_single(a) {
            edges.extend(g.get_node(a).edges(da));
        }
        let b_pal = pal_single(b);
        if !edges
            .iter()
            .any(|e| e.0 == b && (b_pal || side_of(e.1) == side_of(db)))
        {
            return Err(format!(
                "path step {:?} -> {:?} is not a reported edge (edges of node {} on that side: {:?})",
                path[i - 1], path[i], a, edges
            ));
        }
        let ob = oriented(&g.get_node(b).sequence().bytes(), db);
        if expect[expect.len() - (k - 1)..] != ob[..k - 1] {
            return Err(format!(
                "path step {:?} -> {:?}: walked nodes do not overlap by K-1 bases",
                path[i - 1], path[i]
            ));
        }
        windows.extend(ob.windows(k).map(|w| w.to_vec()));
        expect.extend_from_slice(&ob[k - 1..]);
    }
    let got = g.sequence_of_path(path.iter()).to_bytes();
    if got != expect {
        return Err(format!(
            "sequence_of_path({:?}) = {} but the walked nodes spell {}",
            path,
            crate::util::ascii(&got),
            crate::util::ascii(&expect)
        ));
    }
    let got_windows: Vec<S> = got.windows(k).map(|w| w.to_vec()).collect();
    if got_windows != windows {
        return Err(format!(
            "k-mers of the spelled path are not the walked nodes' k-mers in order ({:?})",
            path
        ));
    }
    Ok(())
}

pub fn kmers_sorted<K: Kmer, D: Clone>(rows: &BTreeMap<S, (u8, D)>) -> Vec<(K, (Exts, D))> {
    // BTreeMap order over Vec<u8> strings == lexicographic k-mer order
    rows.iter()
        .map(|(k, (m, d))| (kfrom::<K>(k), (Exts::new(*m), d.clone())))
        .collect()
}

pub fn rows_of<K: Kmer, D: Clone>(v: &[(K, (Exts, D))]) -> BTreeMap<S, (u8, D)> {
    v.iter()
        .map(|(k, (e, d))| (kstr(k), (e.val, d.clone())))
        .collect()
}
