//! K-mer type lists and conversions between library values and model strings.

pub use debruijn::kmer::*;
use debruijn::{Exts, Kmer, Mer};

use crate::model::S;

pub type Kmer31 = VarIntKmer<u64, K31>;

pub fn kstr<K: Kmer>(k: &K) -> S {
    (0..K::k()).map(|i| k.get(i)).collect()
}

pub fn kfrom<K: Kmer>(s: &[u8]) -> K {
    K::from_bytes(s)
}

pub fn mer_bytes<M: Mer>(m: &M) -> S {
    (0..m.len()).map(|i| m.get(i)).collect()
}

pub fn exts_of(m: u8) -> Exts {
    Exts::new(m)
}

/// K types with K >= 4 (usable by filter_kmers / graph construction): 17 types
pub const GRAPH_K_NAMES: [&str; 17] = [
    "Kmer4", "Kmer5", "Kmer6", "Kmer8", "Kmer10", "Kmer12", "Kmer14", "Kmer15", "Kmer16", "Kmer20",
    "Kmer24", "Kmer30", "Kmer31", "Kmer32", "Kmer40", "Kmer48", "Kmer64",
];
pub const GRAPH_K_VALUES: [usize; 17] = [4, 5, 6, 8, 10, 12, 14, 15, 16, 20, 24, 30, 31, 32, 40, 48, 64];

/// run `$body` with the type alias `$K` bound to the idx-th graph K type
#[macro_export]
macro_rules! with_graph_k {
    ($idx:expr, $K:ident => $body:expr) => {
        match $idx {
            0 => { type $K = $crate::ktypes::Kmer4; $body }
            1 => { type $K = $crate::ktypes::Kmer5; $body }
            2 => { type $K = $crate::ktypes::Kmer6; $body }
            3 => { type $K = $crate::ktypes::Kmer8; $body }
            4 => { type $K = $crate::ktypes::Kmer10; $body }
            5 => { type $K = $crate::ktypes::Kmer12; $body }
            6 => { type $K = $crate::ktypes::Kmer14; $body }
            7 => { type $K = $crate::ktypes::Kmer15; $body }
            8 => { type $K = $crate::ktypes::Kmer16; $body }
            9 => { type $K = $crate::ktypes::Kmer20; $body }
            10 => { type $K = $crate::ktypes::Kmer24; $body }
            11 => { type $K = $crate::ktypes::Kmer30; $body }
            12 => { type $K = $crate::ktypes::Kmer31; $body }
            13 => { type $K = $crate::ktypes::Kmer32; $body }
            14 => { type $K = $crate::ktypes::Kmer40; $body }
            15 => { type $K = $crate::ktypes::Kmer48; $body }
            16 => { type $K = $crate::ktypes::Kmer64; $body }
            _ => unreachable!(),
        }
    };
}

/// all 19 shipped k-mer types
pub const ALL_K_NAMES: [&str; 19] = [
    "Kmer2", "Kmer3", "Kmer4", "Kmer5", "Kmer6", "Kmer8", "Kmer10", "Kmer12", "Kmer14", "Kmer15",
    "Kmer16", "Kmer20", "Kmer24", "Kmer30", "Kmer31", "Kmer32", "Kmer40", "Kmer48", "Kmer64",
];

#[macro_export]
macro_rules! with_all_k {
    ($idx:expr, $K:ident => $body:expr) => {
        match $idx {
            0 => { type $K = $crate::ktypes::Kmer2; $body }
            1 => { type $K = $crate::ktypes::Kmer3; $body }
            n => $crate::with_graph_k!(n - 2, $K => $body),
        }
    };
}

/// pick a graph K index with small K weighted ~70 %
pub fn pick_graph_k(rng: &crate::util::Rng) -> usize {
    if rng.chance(7, 10) {
        // K = 4,5,6,8 (idx 0..3) mostly, sometimes 10/12
        *rng.pick(&[0usize, 0, 1, 1, 2, 2, 3, 3, 4, 5])
    } else {
        rng.range(6, 16)
    }
}
