//! Reference model: DNA as plain `Vec<u8>` over {0,1,2,3}. Nothing packed, nothing canonicalised
//! implicitly, no call into the library under test.

use std::collections::{BTreeMap, BTreeSet, HashMap};

pub type S = Vec<u8>;

pub const L: u8 = 0;
pub const R: u8 = 1;

pub fn rc(s: &[u8]) -> S {
    s.iter().rev().map(|b| 3 - b).collect()
}

/// canonical representative and whether the input was the larger strand (equality counts as flipped,
/// which is what `min_rc_flip` does; irrelevant semantically because then both strands are equal)
pub fn canon(s: &[u8], stranded: bool) -> (S, bool) {
    if stranded {
        return (s.to_vec(), false);
    }
    let r = rc(s);
    if s < &r[..] {
        (s.to_vec(), false)
    } else {
        (r, true)
    }
}

pub fn canon_s(s: &[u8], stranded: bool) -> S {
    canon(s, stranded).0
}

pub fn is_pal(s: &[u8], stranded: bool) -> bool {
    !stranded && s.len() % 2 == 0 && rc(s) == s
}

/// 4-bit set of bases -> complemented set (A<->T, C<->G)
fn comp4(x: u8) -> u8 {
    ((x & 1) << 3) | ((x & 2) << 1) | ((x & 4) >> 1) | ((x & 8) >> 3)
}

/// extension mask (bit b = left base b, bit 4+b = right base b) of the reverse-complement strand
pub fn exts_rc(e: u8) -> u8 {
    let l = e & 0xf;
    let r = e >> 4;
    (comp4(l) << 4) | comp4(r)
}

pub fn exts_complement(e: u8) -> u8 {
    (comp4(e >> 4) << 4) | comp4(e & 0xf)
}

pub fn exts_reverse(e: u8) -> u8 {
    (e << 4) | (e >> 4)
}

pub fn side_bits(e: u8, side: u8) -> u8 {
    if side == L {
        e & 0xf
    } else {
        e >> 4
    }
}

pub fn bit(side: u8, b: u8) -> u8 {
    if side == L {
        1 << b
    } else {
        1 << (4 + b)
    }
}

/// The k-mer obtained by shifting base `b` in on `side`
pub fn ext_str(key: &[u8], side: u8, b: u8) -> S {
    let k = key.len();
    if side == R {
        let mut v = key[1..].to_vec();
        v.push(b);
        v
    } else {
        let mut v = Vec::with_capacity(k);
        v.push(b);
        v.extend_from_slice(&key[..k - 1]);
        v
    }
}

/// One observation of a k-mer in the input.
#[derive(Clone, Debug, PartialEq, Eq)]
pub struct Obs {
    pub read: usize,
    pub pos: usize,
    /// mask in the orientation of the (canonical) key
    pub mask: u8,
    /// mask in the orientation of the other strand (what a palindromic key may legitimately carry)
    pub mask_other: u8,
    pub flipped: bool,
}

#[derive(Clone, Debug, Default)]
pub struct Row {
    pub mask: u8,
    pub obs: Vec<Obs>,
}

/// An input sequence: bases plus caller-supplied boundary extension mask.
#[derive(Clone, Debug)]
pub struct Seq {
    pub bases: S,
    pub exts: u8,
    pub label: u32,
}

pub type Table = BTreeMap<S, Row>;

/// Table model: every window of every sequence, flanks as masks, canonicalised when unstranded.
pub fn build_table(seqs: &[Seq], k: usize, stranded: bool) -> Table {
    let mut t: Table = BTreeMap::new();
    for (ri, sq) in seqs.iter().enumerate() {
        let r = &sq.bases;
        if r.len() < k {
            continue;
        }
        for i in 0..=(r.len() - k) {
            let w = &r[i..i + k];
            let mut e = 0u8;
            if i > 0 {
                e |= 1 << r[i - 1];
            } else {
                e |= sq.exts & 0x0f;
            }
            if i + k < r.len() {
                e |= 1 << (4 + r[i + k]);
            } else {
                e |= sq.exts & 0xf0;
            }
            let (c, flip) = canon(w, stranded);
            let m = if flip { exts_rc(e) } else { e };
            let mo = if flip { e } else { exts_rc(e) };
            let row = t.entry(c).or_default();
            row.mask |= m;
            row.obs.push(Obs {
                read: ri,
                pos: i,
                mask: m,
                mask_other: mo,
                flipped: flip,
            });
        }
    }
    t
}

/// mask comparison that tolerates the strand ambiguity of palindromic keys
pub fn masks_agree(key: &[u8], stranded: bool, expected: u8, actual: u8) -> bool {
    if is_pal(key, stranded) {
        let sym = expected | exts_rc(expected);
        (actual | exts_rc(actual)) == sym && (actual & !sym) == 0
    } else {
        expected == actual
    }
}

/// keep extension bit iff the extended (canonical) k-mer is in `present`
pub fn prune_mask<F: Fn(&S) -> bool>(key: &[u8], mask: u8, stranded: bool, present: F) -> u8 {
    let mut ne = 0u8;
    for side in [L, R] {
        for b in 0..4u8 {
            let bt = bit(side, b);
            if mask & bt == 0 {
                continue;
            }
            let e = ext_str(key, side, b);
            if present(&canon_s(&e, stranded)) {
                ne |= bt;
            }
        }
    }
    ne
}

pub fn prune_table(rows: &BTreeMap<S, u8>, stranded: bool) -> BTreeMap<S, u8> {
    rows.iter()
        .map(|(k, m)| {
            (
                k.clone(),
                prune_mask(k, *m, stranded, |x| rows.contains_key(x)),
            )
        })
        .collect()
}

/// Is the mask table symmetric (every recorded extension towards a present key is recorded on the
/// facing side of that key too)? Palindromic keys are exempt (either side may carry the bit).
pub fn table_symmetric(rows: &BTreeMap<S, u8>, stranded: bool) -> bool {
    for (key, m) in rows {
        for side in [L, R] {
            for b in 0..4u8 {
                if m & bit(side, b) == 0 {
                    continue;
                }
                let e = ext_str(key, side, b);
                let (c, flip) = canon(&e, stranded);
                let tm = match rows.get(&c) {
                    Some(tm) => *tm,
                    None => continue,
                };
                // facing side and base on the target
                let (tside, tbase) = facing(key, side, flip);
                if is_pal(&c, stranded) || is_pal(key, stranded) {
                    let alt = (1 - tside, 3 - tbase);
                    if tm & bit(tside, tbase) == 0 && tm & bit(alt.0, alt.1) == 0 {
                        return false;
                    }
                } else if tm & bit(tside, tbase) == 0 {
                    return false;
                }
            }
        }
    }
    true
}

/// For the link key --side,b--> target (target stored flipped iff `flip`): the side of the target
/// that faces `key` and the base the target must record there.
pub fn facing(key: &[u8], side: u8, flip: bool) -> (u8, u8) {
    let k = key.len();
    if side == R {
        // (K+1)-mer = key + b ; target = key[1..]+b ; it sees key[0] on its left
        if !flip {
            (L, key[0])
        } else {
            (R, 3 - key[0])
        }
    } else {
        // (K+1)-mer = b + key ; target = b+key[..k-1] ; it sees key[k-1] on its right
        if !flip {
            (R, key[k - 1])
        } else {
            (L, 3 - key[k - 1])
        }
    }
}

/// Expected node partition: connected components of the mergeable-link relation.
/// `join(a, b)` is the caller's join predicate evaluated on keys.
pub fn partition<F: Fn(&S, &S) -> bool>(
    rows: &BTreeMap<S, u8>,
    stranded: bool,
    join: F,
) -> BTreeSet<BTreeSet<S>> {
    let keys: Vec<&S> = rows.keys().collect();
    let idx: HashMap<&S, usize> = keys.iter().enumerate().map(|(i, k)| (*k, i)).collect();
    let mut uf: Vec<usize> = (0..keys.len()).collect();
    fn find(uf: &mut Vec<usize>, mut x: usize) -> usize {
        while uf[x] != x {
            uf[x] = uf[uf[x]];
            x = uf[x];
        }
        x
    }
    for (i, key) in keys.iter().enumerate() {
        let e = rows[*key];
        if is_pal(key, stranded) {
            continue;
        }
        for side in [L, R] {
            let bits = side_bits(e, side);
            if bits.count_ones() != 1 {
                continue;
            }
            let b = bits.trailing_zeros() as u8;
            let ext = ext_str(key, side, b);
            let (c, flip) = canon(&ext, stranded);
            let j = match idx.get(&c) {
                Some(j) => *j,
                None => continue,
            };
            if j == i || is_pal(&c, stranded) {
                continue;
            }
            let (tside, _) = facing(key, side, flip);
            if side_bits(rows[&c], tside).count_ones() != 1 {
                continue;
            }
            if !join(key, &c) {
                continue;
            }
            let (a, b2) = (find(&mut uf, i), find(&mut uf, j));
            uf[a] = b2;
        }
    }
    let mut classes: BTreeMap<usize, BTreeSet<S>> = BTreeMap::new();
    for i in 0..keys.len() {
        let r = find(&mut uf, i);
        classes.entry(r).or_default().insert(keys[i].clone());
    }
    classes.into_values().collect()
}

/// canonical (K+1)-mers observed in the input (boundary extensions count as observed flanks)
/// whose two K-windows are both in `retained`.
pub fn adjacency(seqs: &[Seq], k: usize, stranded: bool, retained: &BTreeSet<S>) -> BTreeSet<S> {
    let mut out = BTreeSet::new();
    let mut add = |w: &[u8]| {
        debug_assert!(w.len() == k + 1);
        let a = canon_s(&w[..k], stranded);
        let b = canon_s(&w[1..], stranded);
        if retained.contains(&a) && retained.contains(&b) {
            out.insert(canon_s(w, stranded));
        }
    };
    for sq in seqs {
        let r = &sq.bases;
        if r.len() < k {
            continue;
        }
        for i in 0..(r.len() - k) {
            add(&r[i..i + k + 1]);
        }
        for b in 0..4u8 {
            if sq.exts & bit(L, b) != 0 {
                let mut w = vec![b];
                w.extend_from_slice(&r[..k]);
                add(&w);
            }
            if sq.exts & bit(R, b) != 0 {
                let mut w = r[r.len() - k..].to_vec();
                w.push(b);
                add(&w);
            }
        }
    }
    out
}

/// adjacency implied by a symmetric mask table (each set bit towards a present key)
pub fn adjacency_of_table(rows: &BTreeMap<S, u8>, stranded: bool) -> BTreeSet<S> {
    let mut out = BTreeSet::new();
    for (key, m) in rows {
        for side in [L, R] {
            for b in 0..4u8 {
                if m & bit(side, b) == 0 {
                    continue;
                }
                let e = ext_str(key, side, b);
                if !rows.contains_key(&canon_s(&e, stranded)) {
                    continue;
                }
                let w: S = if side == R {
                    let mut w = key.to_vec();
                    w.push(b);
                    w
                } else {
                    let mut w = vec![b];
                    w.extend_from_slice(key);
                    w
                };
                out.insert(canon_s(&w, stranded));
            }
        }
    }
    out
}
