//! C16: ASCII ingestion is total and path-independent.

use crate::model::*;
use crate::runner::{Case, Ctx};
use crate::util::H;
use crate::ensure;
use debruijn::dna_string::DnaString;
use debruijn::verif_hooks;
use serde_json::json;

fn table(b: u8) -> u8 {
    match b {
        b'A' | b'a' => 0,
        b'C' | b'c' => 1,
        b'G' | b'g' => 2,
        b'T' | b't' => 3,
        _ => 0,
    }
}

fn is_acgt(b: u8) -> bool {
    matches!(b, b'A' | b'a' | b'C' | b'c' | b'G' | b'g' | b'T' | b't')
}

/// all observable consequences of ingesting `bytes`
pub fn check_bytes(bytes: &[u8], with_scalar_hook: bool) -> Result<(), String> {
    let exp: S = bytes.iter().map(|b| table(*b)).collect();
    let show = |bs: &[u8]| -> String { bs.iter().map(|b| if b.is_ascii_graphic() { (*b as char).to_string() } else { format!("\\x{:02x}", b) }).collect() };
    // exact-size heap allocation: a kernel that loads past the end of the caller's slice leaves the
    // allocation (visible to Miri / ASan / memcheck even when the decoded values are right)
    let exact: Box<[u8]> = bytes.to_vec().into_boxed_slice();
    let x = DnaString::from_acgt_bytes(&exact);
    ensure!(x.len() == bytes.len(), "from_acgt_bytes: len {} for {} input bytes", x.len(), bytes.len());
    let got = x.to_bytes();
    if got != exp {
        let p = got.iter().zip(exp.iter()).position(|(a, b)| a != b).unwrap_or(0);
        return Err(format!(
            "from_acgt_bytes(len {}): byte {:#04x} at position {} (lane {} of {}) decodes to {}, the table says {} (input {})",
            bytes.len(),
            bytes[p],
            p,
            p % 32,
            if p / 32 < bytes.len() / 32 { "a full 32-byte block" } else { "the scalar tail" },
            got[p],
            exp[p],
            show(&bytes[..bytes.len().min(80)])
        ));
    }
    // value-level agreement with the plain route (==, hence storage padding too)
    let plain = DnaString::from_bytes(&exp);
    ensure!(x == plain, "from_acgt_bytes(len {}) spells the right bases but is != DnaString::from_bytes of them (padding / block count differs)", bytes.len());
    // str-based constructor on the same text (each byte as one char < U+0100)
    let txt: String = bytes.iter().map(|b| *b as char).collect();
    let y = DnaString::from_dna_string(&txt);
    ensure!(y == x, "from_dna_string and from_acgt_bytes disagree on {}", show(&bytes[..bytes.len().min(80)]));
    // rendering back
    let up: Vec<u8> = bytes.iter().map(|b| b"ACGT"[table(*b) as usize]).collect();
    ensure!(x.to_ascii_vec() == up, "to_ascii_vec is not the upper-cased input with non-ACGT replaced by A");
    ensure!(x.to_string().as_bytes() == &up[..], "to_string is not the upper-cased input with non-ACGT replaced by A");
    if with_scalar_hook {
        verif_hooks::set_force_scalar(true);
        let z = DnaString::from_acgt_bytes(&exact);
        verif_hooks::set_force_scalar(false);
        ensure!(z == x, "vector path and scalar path of from_acgt_bytes disagree (len {})", bytes.len());
    }
    // strict constructor: maximal ACGT runs
    let runs = DnaString::from_dna_only_string(&txt);
    let mut exp_runs: Vec<S> = Vec::new();
    let mut cur: S = Vec::new();
    for b in bytes {
        if is_acgt(*b) {
            cur.push(table(*b));
        } else if !cur.is_empty() {
            exp_runs.push(std::mem::take(&mut cur));
        }
    }
    if !cur.is_empty() {
        exp_runs.push(cur);
    }
    let got_runs: Vec<S> = runs.iter().map(|r| r.to_bytes()).collect();
    ensure!(got_runs == exp_runs, "from_dna_only_string: {} runs, expected {} (input {})", got_runs.len(), exp_runs.len(), show(&bytes[..bytes.len().min(80)]));
    for (r, e) in runs.iter().zip(exp_runs.iter()) {
        ensure!(*r == DnaString::from_bytes(e), "from_dna_only_string run is != from_bytes of its bases");
    }
    Ok(())
}

pub fn check_hashn(c: &mut Case, bytes: &[u8]) -> Result<(), String> {
    let nlen = if c.rng.chance(1, 3) { c.rng.range(60, 140) } else { c.rng.below(12) };
    let name: Vec<u8> = (0..nlen).map(|_| (c.rng.next() & 0xff) as u8).collect();
    let a = DnaString::from_acgt_bytes_hashn(bytes, &name);
    // calls for sibling read names in between (same length, long common prefix, different tail, and a
    // different length): the result for `name` must not depend on what was converted before
    if !name.is_empty() {
        let mut sib = name.clone();
        let last = sib.len() - 1;
        sib[last] ^= 0x5a;
        let s1 = DnaString::from_acgt_bytes_hashn(bytes, &sib);
        let s2 = DnaString::from_acgt_bytes_hashn(bytes, &sib);
        ensure!(s1 == s2, "from_acgt_bytes_hashn is not repeatable (sibling name)");
        let mut longer = name.clone();
        longer.push(b'/');
        let _ = DnaString::from_acgt_bytes_hashn(bytes, &longer);
        let first_of_sib_after_other = DnaString::from_acgt_bytes_hashn(bytes, &sib);
        ensure!(first_of_sib_after_other == s1, "from_acgt_bytes_hashn(read, name) changed after a call with another read name (name length {})", sib.len());
        c.count("hashn_sibling_name_sequences", 1);
    }
    let b = DnaString::from_acgt_bytes_hashn(bytes, &name);
    ensure!(a == b, "from_acgt_bytes_hashn(read, name) gave a different result after calls with other read names (name length {}) - not a function of (read name, position)", name.len());
    ensure!(a.len() == bytes.len(), "hashn: length");
    let av = a.to_bytes();
    for (i, by) in bytes.iter().enumerate() {
        ensure!(av[i] <= 3, "hashn emitted {}", av[i]);
        if is_acgt(*by) {
            ensure!(av[i] == table(*by), "hashn changed the ACGT byte {:#04x} at {}", by, i);
        }
    }
    ensure!(a == DnaString::from_bytes(&av), "hashn result is != from_bytes of its bases");
    // depends only on (read name, position): change OTHER bytes (including other non-ACGT bytes), keep positions
    if !bytes.is_empty() {
        let mut other = bytes.to_vec();
        let keep = c.rng.below(bytes.len());
        for (i, o) in other.iter_mut().enumerate() {
            if i != keep && c.rng.chance(1, 2) {
                *o = *c.rng.pick(&[b'N', b'n', b'A', b'c', b'G', b'-', b'.', 0u8, 200u8, b'T']);
            }
        }
        let o = DnaString::from_acgt_bytes_hashn(&other, &name).to_bytes();
        for i in 0..bytes.len() {
            if !is_acgt(bytes[i]) && !is_acgt(other[i]) {
                ensure!(
                    o[i] == av[i],
                    "hashn: the substitute at position {} changed from {} to {} when only OTHER bytes of the read changed (same read name)",
                    i,
                    av[i],
                    o[i]
                );
                c.count("hashn_positions_checked_for_independence", 1);
            }
        }
    }
    Ok(())
}

fn c16_exhaustive(c: &mut Case) -> Result<(), String> {
    // 256 byte values x 32 lanes, 32 distinct (value, lane) pairs per call: call index = value base
    let v0 = c.idx as u8; // 0..=255
    for shape in 0..3 {
        let mut block = [b'A'; 32];
        for lane in 0..32 {
            block[lane] = v0.wrapping_add((lane as u8).wrapping_mul(8));
        }
        // every value hits every lane across the 256 calls: value v sits in lane l when v0 = v - 8l
        let mut bytes: Vec<u8> = Vec::new();
        match shape {
            0 => bytes.extend_from_slice(&block),
            1 => {
                bytes.extend_from_slice(&block);
                bytes.extend_from_slice(&[v0, b'c', v0.wrapping_add(1), b'T', v0.wrapping_add(77)]);
            }
            _ => {
                bytes.extend_from_slice(b"ACGTacgtNNNNACGTacgtNNNNACGTacgt");
                bytes.extend_from_slice(&block);
            }
        }
        check_bytes(&bytes, true)?;
        c.count("exhaustive_value_lane_pairs", 32);
    }
    // a rotation so that all 256 x 32 pairs (not only the stride-8 family) occur
    for lane in 0..32usize {
        let mut block = [b'G'; 32];
        block[lane] = v0;
        check_bytes(&block, false)?;
        c.count("single_lane_probes", 1);
    }
    c.nontrivial(v0 as u64);
    Ok(())
}

fn c16_lengths(c: &mut Case) -> Result<(), String> {
    let n = c.idx as usize; // 0..=200
    for variant in 0..4 {
        let bytes: Vec<u8> = (0..n)
            .map(|i| match variant {
                0 => b"ACGT"[c.rng.below(4)],
                1 => b"acgtACGTNn"[c.rng.below(10)],
                2 => (c.rng.next() & 0xff) as u8,
                _ => b"ACGT"[i % 4],
            })
            .collect();
        check_bytes(&bytes, true)?;
        check_hashn(c, &bytes)?;
    }
    c.count("lengths_covered", 1);
    c.nontrivial(1000 + n as u64);
    Ok(())
}

fn c16_random(c: &mut Case) -> Result<(), String> {
    let n = match c.rng.below(4) {
        0 => c.rng.below(40),
        1 => 32 * c.rng.range(1, 6) + *c.rng.pick(&[0usize, 0, 1, 31]),
        2 => c.rng.below(400),
        _ => c.rng.below(if c.lane_miri { 200 } else { 4096 }),
    };
    let style = c.rng.below(4);
    let bytes: Vec<u8> = (0..n)
        .map(|_| match style {
            0 => b"ACGTacgtNn"[c.rng.below(10)],
            1 => {
                if c.rng.chance(1, 20) { (c.rng.next() & 0xff) as u8 } else { b"ACGT"[c.rng.below(4)] }
            }
            2 => (c.rng.next() & 0xff) as u8,
            // bytes that share low nibbles / high bits with ACGT (hostile to lookup-table kernels)
            _ => *c.rng.pick(&[b'A', b'C', b'G', b'T', b'a', b'c', b'g', b't', b'Q', b'S', b'W', b'D', b'd', b's', b'w', b'3', b'4', b'7', b'#', b'$', b'\'', 0x01, 0x03, 0x04, 0x07, 0x13, 0x14, 0x17, 0x41 | 0x80, 0xc3, 0xe7, 0xf4, b'@', b'`', b'N', b'U', b'u']),
        })
        .collect();
    check_bytes(&bytes, true)?;
    if c.rng.chance(1, 3) {
        check_hashn(c, &bytes)?;
        c.count("hashn_strings", 1);
    }
    c.count("strings", 1);
    c.count("bytes_ingested", n as u64);
    c.count("strings_with_full_blocks_and_tail", (n >= 32 && n % 32 != 0) as u64);
    c.count("strings_with_non_acgt", bytes.iter().any(|b| !is_acgt(*b)) as u64);
    c.nontrivial(H::new().b(&bytes).get());
    c.sample(|| json!({"len": n, "style": style, "head": String::from_utf8_lossy(&bytes[..n.min(48)]).to_string()}));
    Ok(())
}

/// long inputs around powers of two: batch / buffer / counter thresholds inside the converter
fn c16_long(c: &mut Case) -> Result<(), String> {
    let j = c.rng.range(10, 18);
    let m = c.rng.range(1, 3);
    let r = *c.rng.pick(&[-33i64, -32, -31, -1, 0, 1, 5, 31, 32, 33]);
    let n = (((1i64 << j) * m as i64) + r).max(0) as usize;
    let style = c.rng.below(3);
    let bytes: Vec<u8> = (0..n)
        .map(|_| match style {
            0 => b"ACGT"[c.rng.below(4)],
            1 => b"ACGTacgtN"[c.rng.below(9)],
            _ => if c.rng.chance(1, 50) { (c.rng.next() & 0xff) as u8 } else { b"ACGT"[c.rng.below(4)] },
        })
        .collect();
    check_bytes(&bytes, true)?;
    c.count("long_strings", 1);
    c.count("bytes_ingested", n as u64);
    c.nontrivial(H::new().u(n as u64).u(style as u64).u(c.idx).get());
    Ok(())
}

pub const RULE_C16: &str = "exhaustive groups: every byte value 0-255 in every lane 0-31 of a 32-byte block (as a lone block, followed by a 5-byte scalar tail, and as second block), and every length 0-200 with four content styles; sampled group: lengths mixing several vector blocks and a tail, up to 4 KiB, over {ACGTacgtNn}, mostly-valid with arbitrary bytes, arbitrary bytes, and bytes sharing nibbles/high bits with ACGT; each string checked through from_acgt_bytes (vector path) vs byte table, == DnaString::from_bytes, from_dna_string, to_ascii_vec/to_string, forced-scalar path (hook), from_dna_only_string runs, from_acgt_bytes_hashn (ACGT untouched, <= 3, repeatable, substitute independent of other bytes); distinct = hash(bytes)";

/// interpreter-sized exhaustive pass: 256 calls cover every byte value in every lane once
fn c16_exhaustive_light(c: &mut Case) -> Result<(), String> {
    let v0 = c.idx as u8;
    let mut block = [0u8; 32];
    for lane in 0..32 {
        block[lane] = v0.wrapping_add((lane as u8).wrapping_mul(8));
    }
    let tail = (c.idx % 7) as usize;
    let mut bytes = block.to_vec();
    bytes.extend_from_slice(&block[..tail]);
    let exact: Box<[u8]> = bytes.clone().into_boxed_slice();
    let x = DnaString::from_acgt_bytes(&exact);
    let exp: S = bytes.iter().map(|b| table(*b)).collect();
    ensure!(x.to_bytes() == exp, "from_acgt_bytes differs from the byte table on block base value {:#04x}", v0);
    ensure!(x == DnaString::from_bytes(&exp), "from_acgt_bytes value != from_bytes");
    c.count("exhaustive_value_lane_pairs", 32);
    c.nontrivial(v0 as u64);
    Ok(())
}

pub fn run_c16(ctx: &Ctx) {
    if ctx.is_miri() {
        // shard-friendly: the caller splits the 256 + 131 calls over processes
        ctx.run_group("exhaustive_value_lane_light", 256, true, |c| c16_exhaustive_light(c));
        ctx.run_group("lengths_light", 131, true, |c| {
            let n = c.idx as usize;
            let bytes: Vec<u8> = (0..n).map(|_| b"ACGTacgtN\x00\xff"[c.rng.below(11)]).collect();
            check_bytes(&bytes, false)
        });
        ctx.add_count("avx2_detected", std::is_x86_feature_detected!("avx2") as u64);
        return;
    }
    ctx.run_group("exhaustive_value_lane", 256, true, |c| c16_exhaustive(c));
    ctx.run_group("all_lengths", 201, true, |c| c16_lengths(c));
    let n = ctx.n(1_000_000, 50_000_000);
    ctx.run_group("random", n, false, |c| c16_random(c));
    ctx.run_group("long", ctx.n(400, 20_000), false, |c| c16_long(c));
    ctx.add_count("avx2_detected", std::is_x86_feature_detected!("avx2") as u64);
    if !ctx.is_miri() {
        ctx.require("long_strings", 100);
        ctx.require("hashn_sibling_name_sequences", 1000);
        ctx.require("exhaustive_value_lane_pairs", 256 * 96);
        ctx.require("lengths_covered", 201);
        ctx.require("strings_with_full_blocks_and_tail", 1000);
        ctx.require("hashn_positions_checked_for_independence", 1000);
        ctx.require("avx2_detected", 1);
    }
}
