//! C14 (growable DNA string is a faithful container) and C15 (slices are exact, composable views).

use crate::ktypes::*;
use crate::model::*;
use crate::runner::{Case, Ctx};
use crate::util::{ascii, H};
use crate::ensure;
use debruijn::dna_string::{ndiffs, DnaString, DnaStringSlice, PackedDnaStringSet};
use debruijn::{Mer, Vmer};
use serde_json::json;
use std::collections::hash_map::DefaultHasher;
use std::hash::{Hash, Hasher};

fn hash_of<T: Hash>(x: &T) -> u64 {
    let mut h = DefaultHasher::new();
    x.hash(&mut h);
    h.finish()
}

fn pick_len(c: &Case) -> usize {
    match c.rng.below(4) {
        0 => *c.rng.pick(&[0usize, 1, 31, 32, 33, 63, 64, 65, 96, 128]),
        1 => c.rng.below(8),
        _ => c.rng.below(140),
    }
}

/// observable state of `x` against the model vector `m`
fn check_string(x: &DnaString, m: &[u8], what: &str) -> Result<(), String> {
    ensure!(x.len() == m.len() && Mer::len(x) == m.len(), "after {}: len {} != model {}", what, x.len(), m.len());
    ensure!(x.is_empty() == m.is_empty(), "after {}: is_empty", what);
    for (i, b) in m.iter().enumerate() {
        ensure!(x.get(i) == *b, "after {}: base {} reads {} but the model holds {} (model {})", what, i, x.get(i), b, ascii(m));
    }
    ensure!(x.iter().collect::<Vec<u8>>() == m, "after {}: iter() != model", what);
    ensure!((&*x).into_iter().collect::<Vec<u8>>() == m, "after {}: IntoIterator != model", what);
    ensure!(x.to_bytes() == m, "after {}: to_bytes != model", what);
    let asc: Vec<u8> = m.iter().map(|b| b"ACGT"[*b as usize]).collect();
    ensure!(x.to_ascii_vec() == asc, "after {}: to_ascii_vec != model", what);
    ensure!(x.to_string().as_bytes() == &asc[..], "after {}: Display != model", what);
    ensure!(format!("{:?}", x).as_bytes() == &asc[..], "after {}: Debug != model", what);
    // equality / hash / order depend only on the base sequence: compare with two fresh routes
    let fresh = DnaString::from_bytes(m);
    let mut pushed = DnaString::new();
    for b in m {
        pushed.push(*b);
    }
    for (name, f) in [("from_bytes", &fresh), ("push loop", &pushed)] {
        ensure!(
            x == f,
            "after {}: value spelling {} is != the string built by {} from the same bases",
            what,
            ascii(m),
            name
        );
        ensure!(hash_of(x) == hash_of(f), "after {}: hash differs from the string built by {} from the same bases ({})", what, name, ascii(m));
        ensure!(x.cmp(f) == std::cmp::Ordering::Equal, "after {}: cmp with the string built by {} is not Equal", what, name);
        ensure!(ndiffs(x, f) == 0 && x.hamming_distance(f) == 0, "after {}: ndiffs against an equal string is {} ({})", what, ndiffs(x, f), ascii(m));
    }
    Ok(())
}

fn c14_case(c: &mut Case) -> Result<(), String> {
    let mut x = DnaString::new();
    let mut m: S = Vec::new();
    let mut hist: Vec<String> = vec!["new".into()];
    let nops = c.rng.range(1, 14);
    let mut extend_aligned = 0u64;
    let mut extend_unaligned = 0u64;
    for _ in 0..nops {
        let op = c.rng.below(18);
        let what: String = match op {
            0 => {
                x = DnaString::new();
                m.clear();
                "new".into()
            }
            1 => {
                let n = pick_len(c);
                x = DnaString::with_capacity(n);
                m.clear();
                format!("with_capacity({})", n)
            }
            2 => {
                let n = pick_len(c);
                x = if c.rng.chance(1, 2) { DnaString::blank(n) } else { <DnaString as Vmer>::new(n) };
                m = vec![0; n];
                format!("blank({})", n)
            }
            3 => {
                let n = pick_len(c);
                m = c.rng.bases(n, 4);
                x = DnaString::from_bytes(&m);
                format!("from_bytes(len {})", n)
            }
            4 => {
                let n = pick_len(c);
                m = c.rng.bases(n, 4);
                let txt: String = m.iter().map(|b| if c.rng.chance(1, 2) { b"ACGT"[*b as usize] as char } else { b"acgt"[*b as usize] as char }).collect();
                x = DnaString::from_dna_string(&txt);
                format!("from_dna_string(len {})", n)
            }
            5 => {
                let n = pick_len(c);
                m = c.rng.bases(n, 4);
                let txt: Vec<u8> = m.iter().map(|b| b"ACGT"[*b as usize]).collect();
                x = DnaString::from_acgt_bytes(&txt);
                format!("from_acgt_bytes(len {})", n)
            }
            6 | 7 => {
                let n = c.rng.range(1, 5);
                for _ in 0..n {
                    let b = c.rng.base();
                    x.push(b);
                    m.push(b);
                }
                format!("push x{}", n)
            }
            8 | 9 => {
                let n = match c.rng.below(4) {
                    0 => 0,
                    1 => c.rng.below(6),
                    2 => 32usize.wrapping_sub(m.len() % 32) % 32 + *c.rng.pick(&[0usize, 0, 1, 32, 33]),
                    _ => c.rng.below(100),
                };
                let add = c.rng.bases(n, 4);
                if m.len() % 32 == 0 {
                    extend_aligned += 1;
                } else {
                    extend_unaligned += 1;
                }
                x.extend(add.iter().cloned());
                m.extend_from_slice(&add);
                format!("extend(len {}) at len%32={}", n, (m.len() - n) % 32)
            }
            10 => {
                // packed bytes: base i in bits 2*(i%4).. of byte i/4
                let n = c.rng.below(40);
                let nbytes = (n + 3) / 4 + c.rng.below(2);
                let bytes: Vec<u8> = (0..nbytes).map(|_| (c.rng.next() & 0xff) as u8).collect();
                x.push_bytes(&bytes, n);
                for i in 0..n {
                    m.push((bytes[i / 4] >> (2 * (i % 4))) & 3);
                }
                format!("push_bytes({} bases)", n)
            }
            11 | 12 => {
                if m.is_empty() {
                    "noop".into()
                } else {
                    let (p, b) = (c.rng.below(m.len()), c.rng.base());
                    x.set_mut(p, b);
                    m[p] = b;
                    format!("set_mut({}, {})", p, b)
                }
            }
            13 => {
                x.clear();
                m.clear();
                "clear".into()
            }
            14 => {
                x = x.rc();
                m = rc(&m);
                "rc".into()
            }
            15 => {
                x = x.reverse();
                m.reverse();
                "reverse".into()
            }
            16 => {
                // hashed-N constructor: ACGT (either case) as given; other bytes become some valid base
                let n = pick_len(c);
                let txt: Vec<u8> = (0..n).map(|_| *c.rng.pick(b"ACGTacgtNn-")).collect();
                let name: Vec<u8> = (0..c.rng.below(8)).map(|_| b'a' + c.rng.below(26) as u8).collect();
                x = DnaString::from_acgt_bytes_hashn(&txt, &name);
                m = Vec::with_capacity(n);
                for (i, b) in txt.iter().enumerate() {
                    let v = match b {
                        b'A' | b'a' => 0,
                        b'C' | b'c' => 1,
                        b'G' | b'g' => 2,
                        b'T' | b't' => 3,
                        _ => {
                            if i < x.len() { x.get(i).min(3) } else { 0 }
                        }
                    };
                    m.push(v);
                }
                format!("from_acgt_bytes_hashn(len {})", n)
            }
            _ => {
                x = x.clone();
                "clone".into()
            }
        };
        hist.push(what);
        check_string(&x, &m, &format!("history {:?}", hist))?;
    }
    // reverse / rc of the final value
    let r = x.rc();
    ensure!(r.to_bytes() == rc(&m), "rc() of history {:?}", hist);
    let mut rv = m.clone();
    rv.reverse();
    ensure!(x.reverse().to_bytes() == rv, "reverse() of history {:?}", hist);
    // ordering against another history-free value: lexicographic, proper prefix first
    let other: S = match c.rng.below(4) {
        0 => m[..c.rng.below(m.len() + 1)].to_vec(),
        1 => {
            let mut o = m.clone();
            o.extend(c.rng.bases(c.rng.range(1, 40), *c.rng.pick(&[1usize, 4])));
            o
        }
        2 => {
            let mut o = m.clone();
            if !o.is_empty() {
                let p = c.rng.below(o.len());
                o[p] = (o[p] + 1 + c.rng.below(3) as u8) & 3;
            }
            o
        }
        _ => c.rng.bases(pick_len(c), 4),
    };
    let y = DnaString::from_bytes(&other);
    ensure!(
        x.cmp(&y) == m.cmp(&other),
        "cmp({}, {}) = {:?}; as sequences they compare {:?} (history {:?})",
        ascii(&m),
        ascii(&other),
        x.cmp(&y),
        m.cmp(&other),
        hist
    );
    ensure!((x == y) == (m == other), "== against {}", ascii(&other));
    if m.len() == other.len() {
        let d = m.iter().zip(other.iter()).filter(|(a, b)| a != b).count();
        ensure!(ndiffs(&x, &y) == d && x.hamming_distance(&y) == d, "ndiffs = {}, expected {} (history {:?})", ndiffs(&x, &y), d, hist);
        c.count("ndiffs_checked", 1);
    }
    c.count("histories", 1);
    c.count("operations", nops as u64);
    c.count("extend_on_block_boundary", extend_aligned);
    c.count("extend_inside_block", extend_unaligned);
    c.count("final_len_multiple_of_32", (!m.is_empty() && m.len() % 32 == 0) as u64);
    let mut h = H::new();
    for s in &hist {
        h.b(s.as_bytes());
    }
    h.b(&m);
    c.nontrivial(h.get());
    c.sample(|| json!({"history": hist, "final": ascii(&m)}));
    Ok(())
}

fn c14_packed_set(c: &mut Case) -> Result<(), String> {
    let mut set = PackedDnaStringSet::new();
    let mut model: Vec<S> = Vec::new();
    ensure!(set.is_empty() && set.len() == 0, "new set not empty");
    let n = c.rng.range(1, 12);
    for _ in 0..n {
        let s = c.rng.bases(pick_len(c), 4);
        match c.rng.below(3) {
            0 => set.add(&s),
            1 => set.add(s.iter().cloned()),
            _ => set.add(&DnaString::from_bytes(&s)),
        }
        model.push(s);
        // every earlier sequence is still unchanged at its index
        for (i, exp) in model.iter().enumerate() {
            let g = set.get(i);
            ensure!(g.bytes() == *exp, "PackedDnaStringSet::get({}) = {}, added {} (after {} adds)", i, ascii(&g.bytes()), ascii(exp), model.len());
        }
    }
    ensure!(set.len() == model.len() && !set.is_empty(), "set len");
    for (i, exp) in model.iter().enumerate() {
        if !exp.is_empty() {
            let a = c.rng.below(exp.len());
            let b = a + c.rng.below(exp.len() - a + 1);
            ensure!(set.slice(i, a, b).bytes() == exp[a..b], "PackedDnaStringSet::slice({}, {}, {})", i, a, b);
        }
    }
    c.count("packed_sets", 1);
    c.count("packed_sequences", n as u64);
    c.nontrivial(H::new().u(n as u64).b(&model[0]).get());
    Ok(())
}

/// long strings: lengths around 2^15 .. 2^17 (index-width / block-count / chunk thresholds)
fn c14_long(c: &mut Case) -> Result<(), String> {
    let j = c.rng.range(15, 17);
    let r = *c.rng.pick(&[-33i64, -32, -1, 0, 1, 31, 32, 33, 100]);
    let n = ((1i64 << j) + r) as usize;
    let mut m = c.rng.bases(n, 4);
    let mut x = match c.rng.below(4) {
        0 => DnaString::from_bytes(&m),
        1 => {
            let mut x = DnaString::new();
            for b in &m {
                x.push(*b);
            }
            x
        }
        2 => DnaString::from_acgt_bytes(&m.iter().map(|b| b"ACGT"[*b as usize]).collect::<Vec<u8>>()),
        _ => {
            // built by several extends of awkward sizes
            let mut x = DnaString::new();
            let mut pos = 0;
            while pos < n {
                let step = (*c.rng.pick(&[1usize, 31, 32, 33, 1000, 4096, 65_535, 65_536])).min(n - pos);
                x.extend(m[pos..pos + step].iter().cloned());
                pos += step;
            }
            x
        }
    };
    check_string(&x, &m, &format!("long string of {} bases", n))?;
    // a few mutations far into the string
    for _ in 0..4 {
        let p = n - 1 - c.rng.below(200.min(n));
        let b = c.rng.base();
        x.set_mut(p, b);
        m[p] = b;
    }
    let add = c.rng.bases(c.rng.range(1, 70), 4);
    x.extend(add.iter().cloned());
    m.extend_from_slice(&add);
    check_string(&x, &m, &format!("long string of {} bases after set_mut/extend", n))?;
    check_string(&x.rc(), &rc(&m), &format!("rc() of a {}-base string", m.len()))?;
    ensure!(x.rc().rc() == x, "rc().rc() of a {}-base string is != the string", m.len());
    let mut rv = m.clone();
    rv.reverse();
    check_string(&x.reverse(), &rv, &format!("reverse() of a {}-base string", m.len()))?;
    // packed set with a long member
    let mut set = PackedDnaStringSet::new();
    let small = c.rng.bases(40, 4);
    set.add(&small);
    set.add(&m);
    set.add(&small);
    ensure!(set.get(1).bytes() == m && set.get(2).bytes() == small && set.get(0).bytes() == small, "PackedDnaStringSet with a {}-base member", m.len());
    c.count("long_strings", 1);
    c.nontrivial(H::new().u(n as u64).u(c.idx).get());
    Ok(())
}

pub const RULE_C14: &str = "case = operation history of 1-14 steps from {new, with_capacity, blank/Vmer::new, from_bytes, from_dna_string (mixed case), from_acgt_bytes, push, extend (0, few, exactly-to-the-block-boundary, 32, 33 or random many bases; called both on and off a 32-base boundary), push_bytes, set_mut, clear, rc, reverse, clone} with lengths biased to 0,1,31,32,33,63,64,65,96,128; after EVERY step: len/get/iter/to_bytes/to_ascii_vec/Display/Debug vs the model vector, and ==, Hash, cmp, ndiffs against two fresh strings built from the model by other routes; finally rc/reverse, lexicographic cmp against prefixes/extensions/one-base variants, ndiffs counts; second group: PackedDnaStringSet add/get/slice; distinct = hash(history, final value)";

pub fn run_c14(ctx: &Ctx) {
    let n = ctx.n(1_000_000, 50_000_000);
    ctx.run_group("histories", n, false, |c| c14_case(c));
    ctx.run_group("packed_set", ctx.n(100_000, 5_000_000), false, |c| c14_packed_set(c));
    if !ctx.is_miri() {
        ctx.run_group("long", ctx.n(60, 2000), false, |c| c14_long(c));
        ctx.require("long_strings", 20);
        ctx.require("extend_on_block_boundary", 1000);
        ctx.require("extend_inside_block", 1000);
        ctx.require("final_len_multiple_of_32", 500);
        ctx.require("ndiffs_checked", 1000);
    }
}

// ---------------------------------------------------------------------------------------------
// C15
// ---------------------------------------------------------------------------------------------

#[derive(Clone, Debug)]
struct View {
    start: usize,
    length: usize,
    is_rc: bool,
}

fn model_view(back: &[u8], v: &View) -> S {
    let s = back[v.start..v.start + v.length].to_vec();
    if v.is_rc {
        rc(&s)
    } else {
        s
    }
}

/// build a view by random nesting of prefix / suffix / slice / slice-of-slice / rc; returns the
/// library view and the model string computed step by step on plain vectors
fn build_view<'a>(c: &mut Case, ds: &'a DnaString, back: &[u8], min_len: usize) -> (DnaStringSlice<'a>, S, Vec<String>) {
    let n = back.len();
    let mut hist = Vec::new();
    let (mut cur, mut m): (DnaStringSlice<'a>, S) = match c.rng.below(3) {
        0 => {
            let k = min_len + c.rng.below(n - min_len + 1);
            hist.push(format!("prefix({})", k));
            (ds.prefix(k), back[..k].to_vec())
        }
        1 => {
            let k = min_len + c.rng.below(n - min_len + 1);
            hist.push(format!("suffix({})", k));
            (ds.suffix(k), back[n - k..].to_vec())
        }
        _ => {
            let len = min_len + c.rng.below(n - min_len + 1);
            let a = c.rng.below(n - len + 1);
            hist.push(format!("slice({},{})", a, a + len));
            (ds.slice(a, a + len), back[a..a + len].to_vec())
        }
    };
    let depth = c.rng.below(6);
    for _ in 0..depth {
        if c.rng.chance(2, 5) {
            let r = cur.rc();
            cur = DnaStringSlice { dna_string: ds, start: r.start, length: r.length, is_rc: r.is_rc };
            m = rc(&m);
            hist.push("rc".into());
        } else {
            let l = m.len();
            let len = if l > min_len { min_len + c.rng.below(l - min_len + 1) } else { l.min(min_len) };
            if len > l {
                continue;
            }
            let a = c.rng.below(l - len + 1);
            let nx = cur.slice(a, a + len);
            let nx = DnaStringSlice { dna_string: ds, start: nx.start, length: nx.length, is_rc: nx.is_rc };
            cur = nx;
            m = m[a..a + len].to_vec();
            hist.push(format!("slice({},{})", a, a + len));
        }
    }
    (cur, m, hist)
}

fn check_view(v: &DnaStringSlice, m: &[u8], hist: &[String], c: &mut Case) -> Result<(), String> {
    let n = m.len();
    ensure!(v.len() == n && v.is_empty() == (n == 0), "view {:?}: len {} != {}", hist, v.len(), n);
    let positions: Vec<usize> = if n <= 80 { (0..n).collect() } else { (0..40).map(|_| c.rng.below(n)).chain([0, n - 1]).collect() };
    for &i in &positions {
        ensure!(v.get(i) == m[i], "view {:?}: get({}) = {} but the substring holds {}", hist, i, v.get(i), m[i]);
    }
    ensure!(v.bytes() == m, "view {:?}: bytes() != substring", hist);
    let asc: Vec<u8> = m.iter().map(|b| b"ACGT"[*b as usize]).collect();
    ensure!(v.ascii() == asc, "view {:?}: ascii() != substring", hist);
    ensure!(v.to_dna_string().as_bytes() == &asc[..], "view {:?}: to_dna_string() != substring", hist);
    ensure!(v.to_string().as_bytes() == &asc[..], "view {:?}: Display != substring", hist);
    ensure!(v.iter().collect::<Vec<u8>>() == m, "view {:?}: iter() != substring", hist);
    let dbg = format!("{:?}", v);
    if n < 256 {
        ensure!(dbg.as_bytes() == &asc[..], "view {:?}: Debug prints {} but the view reads {}", hist, dbg, ascii(m));
    } else {
        ensure!(
            dbg == format!("start: {}, len: {}, is_rc: {}", v.start, v.length, v.is_rc),
            "view {:?}: long-form Debug {:?} inconsistent with the view's fields",
            hist,
            dbg
        );
    }
    let owned = v.to_owned();
    ensure!(owned == DnaString::from_bytes(m), "view {:?}: to_owned() != DnaString of the substring", hist);
    // k-mers
    if n >= 4 {
        for i in [0usize, n - 4, c.rng.below(n - 3)] {
            let k: Kmer4 = v.get_kmer(i);
            ensure!(kstr(&k) == m[i..i + 4], "view {:?}: get_kmer::<Kmer4>({})", hist, i);
        }
    }
    if n >= 31 {
        for i in [0usize, n - 31, c.rng.below(n - 30)] {
            let k: Kmer31 = v.get_kmer(i);
            ensure!(kstr(&k) == m[i..i + 31], "view {:?}: get_kmer::<K31>({}) = {:?}, expected {}", hist, i, k, ascii(&m[i..i + 31]));
        }
        let items: Vec<Kmer31> = v.iter_kmers().collect();
        ensure!(items.len() == n - 30 && kstr(&items[n - 31]) == m[n - 31..], "view {:?}: iter_kmers::<K31>", hist);
    }
    if n >= 48 {
        let i = c.rng.below(n - 47);
        let k: Kmer48 = v.get_kmer(i);
        ensure!(kstr(&k) == m[i..i + 48], "view {:?}: get_kmer::<Kmer48>({})", hist, i);
    }
    Ok(())
}

fn c15_case(c: &mut Case) -> Result<(), String> {
    let n = match if !c.lane_miri && c.rng.chance(1, 400) { 9 } else { c.rng.below(5) } {
        9 => {
            c.count("views_on_backing_longer_than_65000", 1);
            (1usize << c.rng.range(16, 17)) + c.rng.below(100)
        }
        0 => c.rng.below(20),
        1 => *c.rng.pick(&[255usize, 256, 257, 300]),
        _ => c.rng.below(400),
    };
    let back = c.rng.bases(n, *c.rng.pick(&[2usize, 4, 4]));
    let ds = DnaString::from_bytes(&back);
    let (v, m, hist) = build_view(c, &ds, &back, 0);
    check_view(&v, &m, &hist, c)?;
    // equality: a second, independently nested view of an equal / unequal substring
    let back2 = if c.rng.chance(1, 2) { back.clone() } else { c.rng.bases(n, 4) };
    let ds2 = DnaString::from_bytes(&back2);
    let (v2, m2, hist2) = build_view(c, &ds2, &back2, 0);
    ensure!((v == v2) == (m == m2), "views {:?} and {:?}: == is {} but substrings {} / {} equal = {}", hist, hist2, v == v2, ascii(&m), ascii(&m2), m == m2);
    // a view and the rc of the same window (non-palindromic) must differ; same string via another route must be equal
    let r = v.rc();
    ensure!((v == r) == (m == rc(&m)), "view {:?} == its own rc is {}", hist, v == r);
    let ds3 = DnaString::from_bytes(&m);
    let v3 = ds3.slice(0, m.len());
    ensure!(v == v3 && v3 == v, "view {:?} != a fresh slice over an equal string", hist);
    let dsr = DnaString::from_bytes(&rc(&m));
    let v4 = dsr.slice(0, m.len()).rc();
    ensure!(v == v4, "view {:?} != rc view over the reverse-complemented string", hist);
    c.count("views", 3);
    c.count("rc_views", v.is_rc as u64 + v2.is_rc as u64);
    c.count("nesting_steps", (hist.len() + hist2.len()) as u64);
    c.count("long_debug_forms", (m.len() >= 256) as u64);
    c.nontrivial(H::new().b(&back).u(v.start as u64).u(v.length as u64).u(v.is_rc as u64).get());
    c.sample(|| json!({"backing_len": n, "history": hist, "reads": ascii(&m)}));
    Ok(())
}

fn c15_hamming(c: &mut Case) -> Result<(), String> {
    let fixed = [0usize, 1, 31, 32, 33, 63, 64, 65, 1023, 1024, 1025, 2047, 2048, 2049, 3071, 3072];
    let len = if !c.lane_miri && c.rng.chance(1, 300) {
        // around 2^16 / 2^17 bases
        c.count("hamming_pairs_longer_than_65000", 1);
        (1usize << c.rng.range(16, 17)) + *c.rng.pick(&[0usize, 1, 31, 32, 33]) - c.rng.below(2) * 40
    } else if c.rng.chance(2, 3) { *c.rng.pick(&fixed) } else { c.rng.below(2600) };
    let extra = c.rng.below(70);
    let back1 = c.rng.bases(len + extra, 4);
    // half of the time through the exact-capacity constructor, and often ending exactly at the end
    let mut ds1 = if c.rng.chance(1, 2) {
        DnaString::from_bytes(&back1)
    } else {
        DnaString::from_acgt_bytes(&back1.iter().map(|b| b"ACGT"[*b as usize]).collect::<Vec<u8>>())
    };
    let off1 = if c.rng.chance(1, 3) { extra } else { c.rng.below(extra + 1) };
    let a = View { start: off1, length: len, is_rc: c.rng.chance(1, 3) };
    let ma = model_view(&back1, &a);
    // second operand: a copy with mismatches planted at chosen places, stored at an unrelated offset, maybe rc'd
    let mut mb = ma.clone();
    let mut planted: Vec<usize> = Vec::new();
    if len > 0 {
        let nmis = match c.rng.below(4) {
            0 => 0,
            1 => 1,
            2 => c.rng.below(6),
            _ => c.rng.below(len + 1),
        };
        if c.rng.chance(1, 5) {
            // a contiguous range (often everything) differs at every position: saturates any
            // narrow partial-sum trick in a block-wise popcount
            let a0 = if c.rng.chance(1, 2) { 0 } else { c.rng.below(len) };
            let b0 = if c.rng.chance(1, 2) { len } else { a0 + c.rng.below(len - a0 + 1) };
            for p in a0..b0 {
                mb[p] = if c.rng.chance(1, 2) { 3 - ma[p] } else { (ma[p] + 1 + c.rng.below(3) as u8) & 3 };
            }
            c.count("hamming_pairs_with_dense_mismatch_range", (b0 - a0 >= 256) as u64);
        }
        for _ in 0..nmis {
            let p = match c.rng.below(6) {
                0 => 0,
                1 => len - 1,
                2 => 31.min(len - 1),
                3 => 32.min(len - 1),
                4 => (len % 32).min(len - 1),
                _ => c.rng.below(len),
            };
            mb[p] = (ma[p] + 1 + c.rng.below(3) as u8) & 3;
            planted.push(p);
        }
    }
    let b_rc = c.rng.chance(1, 3);
    let stored = if b_rc { rc(&mb) } else { mb.clone() };
    let pre = c.rng.below(70);
    let mut back2 = c.rng.bases(pre, 4);
    back2.extend_from_slice(&stored);
    back2.extend(c.rng.bases(c.rng.below(40), 4));
    let ds2 = DnaString::from_bytes(&back2);
    let va = {
        let s = ds1.slice(a.start, a.start + a.length);
        if a.is_rc { s.rc() } else { s }
    };
    let vb = {
        let s = ds2.slice(pre, pre + len);
        if b_rc { s.rc() } else { s }
    };
    ensure!(va.bytes() == ma && vb.bytes() == mb, "harness: views do not read the model strings");
    let exp = ma.iter().zip(mb.iter()).filter(|(x, y)| x != y).count() as u32;
    let got = va.hamming_dist(&vb);
    ensure!(
        got == exp,
        "hamming_dist of two length-{} slices (a: offset {} rc={}, b: offset {} rc={}) = {}, they differ at {} positions (planted at {:?})",
        len,
        a.start,
        a.is_rc,
        pre,
        b_rc,
        got,
        exp,
        &planted[..planted.len().min(8)]
    );
    ensure!(vb.hamming_dist(&va) == exp, "hamming_dist is not symmetric");
    ensure!(va.hamming_dist(&va) == 0, "hamming_dist(x, x) != 0");
    // the same windows once more after the left string was edited in place (same address, same
    // length): the distance must follow the contents
    if len > 0 {
        // (edited in place: the string object stays where it is)
        let mut ma2 = ma.clone();
        let edits = c.rng.range(1, 40);
        for _ in 0..edits {
            let q = c.rng.below(len);
            let nb = (ma2[q] + 1 + c.rng.below(3) as u8) & 3;
            // view position q maps to backing position a.start + q (forward) or a.start + len - 1 - q (rc)
            let bp = if a.is_rc { a.start + len - 1 - q } else { a.start + q };
            ds1.set_mut(bp, if a.is_rc { 3 - nb } else { nb });
            ma2[q] = nb;
        }
        let va2 = {
            let s = ds1.slice(a.start, a.start + a.length);
            if a.is_rc { s.rc() } else { s }
        };
        ensure!(va2.bytes() == ma2, "harness: edited view does not read the edited model");
        let exp2 = ma2.iter().zip(mb.iter()).filter(|(x, y)| x != y).count() as u32;
        let got2 = va2.hamming_dist(&vb);
        ensure!(got2 == exp2, "hamming_dist over the same window after {} in-place edits of the left string = {}, the views differ at {} positions (length {})", edits, got2, exp2, len);
        c.count("hamming_after_in_place_edit", 1);
    }
    c.count("hamming_pairs", 1);
    c.count("hamming_pairs_len_ge_1024", (len >= 1024) as u64);
    c.count("hamming_pairs_with_rc_operand", (b_rc || a.is_rc) as u64);
    c.count("hamming_pairs_both_rc", (b_rc && a.is_rc) as u64);
    c.nontrivial(H::new().u(len as u64).u(off1 as u64).u(pre as u64).u(exp as u64).u(b_rc as u64).get());
    Ok(())
}

pub const RULE_C15: &str = "views group: backing string of 0-400 bases (lengths around 256 included), view = random nesting (depth <= 6) of prefix/suffix/slice/slice-of-slice/rc, model computed step by step on plain vectors; checked: len/get/bytes/ascii/to_dna_string/Display/Debug (full text < 256 bases, field summary >= 256)/iter/to_owned/get_kmer (K=4,31,48)/iter_kmers, == against an independently nested view, against its own rc, against fresh views over equal strings; hamming group: two equal-length views (lengths 0,1,31-33,63-65,1023-1025,2047-2049,3071,3072 or random < 2600) at unrelated offsets, any fwd/rc mix, mismatches planted at position 0, last, 31, 32, len%32 and random; distinct = hash of (backing string, view fields) / (length, offsets, distance)";

pub fn run_c15(ctx: &Ctx) {
    ctx.run_group("views", ctx.n(400_000, 20_000_000), false, |c| c15_case(c));
    ctx.run_group("hamming", ctx.n(200_000, 10_000_000), false, |c| c15_hamming(c));
    if !ctx.is_miri() {
        ctx.require("rc_views", 1000);
        ctx.require("hamming_pairs_len_ge_1024", 1000);
        ctx.require("hamming_pairs_both_rc", 500);
        ctx.require("hamming_pairs_longer_than_65000", 100);
        ctx.require("views_on_backing_longer_than_65000", 100);
        ctx.require("hamming_pairs_with_dense_mismatch_range", 500);
        ctx.require("long_debug_forms", 100);
    }
}
