//! C20: exports and persistence are faithful.

use crate::gor::*;
use crate::ktypes::*;
use crate::model::*;
use crate::p_graph::{gen_gcase, lib_direct, GCase};
use crate::runner::{Case, Ctx};
use crate::util::{ascii, H};
use crate::{ensure, with_all_k, with_graph_k};
use debruijn::dna_string::{DnaString, PackedDnaStringSet};
use debruijn::graph::{BaseGraph, DebruijnGraph};
use debruijn::vmer::{Lmer1, Lmer2, Lmer3};
use debruijn::{Dir, Exts, Kmer, Mer, Vmer};
use serde::de::DeserializeOwned;
use serde::Serialize;
use serde_json::{json, Value};
use std::collections::{BTreeMap, BTreeSet};

fn roundtrip<T: Serialize + DeserializeOwned>(x: &T, what: &str) -> Result<T, String> {
    let txt = serde_json::to_string(x).map_err(|e| format!("{}: serialisation failed: {}", what, e))?;
    serde_json::from_str::<T>(&txt).map_err(|e| format!("{}: reading back failed: {} (text {})", what, e, &txt[..txt.len().min(200)]))
}

fn rt_kmer<K: Kmer + Serialize + DeserializeOwned>(c: &mut Case) -> Result<(), String> {
    let k = K::k();
    let s: S = match c.rng.below(4) {
        0 => vec![3; k],
        1 => vec![0; k],
        _ => c.rng.bases(k, 4),
    };
    let x = K::from_bytes(&s);
    let y = roundtrip(&x, &format!("k-mer K={}", k))?;
    ensure!(y == x && kstr(&y) == s, "k-mer K={} value {} reads back as {}", k, ascii(&s), ascii(&kstr(&y)));
    ensure!(y.rc() == x.rc() && y.extend_right(1) == x.extend_right(1), "k-mer read back answers queries differently");
    Ok(())
}

fn rt_values(c: &mut Case) -> Result<(), String> {
    let idx = (c.idx % 19) as usize;
    with_all_k!(idx, K => rt_kmer::<K>(c))?;
    // Exts (all 256 over time), Dir
    let e = Exts::new((c.idx & 0xff) as u8);
    ensure!(roundtrip(&e, "Exts")? == e, "Exts {:#04x} round trip", e.val);
    for d in [Dir::Left, Dir::Right] {
        let d2 = roundtrip(&d, "Dir")?;
        ensure!(side_of(d2) == side_of(d), "Dir round trip");
    }
    // DnaString
    let n = *c.rng.pick(&[0usize, 1, 31, 32, 33, 64, 65, 100]) + c.rng.below(3);
    let s = c.rng.bases(n, 4);
    let ds = DnaString::from_bytes(&s);
    let ds2 = roundtrip(&ds, "DnaString")?;
    ensure!(ds2 == ds && ds2.to_bytes() == s, "DnaString of length {} round trip", n);
    let mut ds3 = ds2.clone();
    ds3.push(2);
    let mut m = s.clone();
    m.push(2);
    ensure!(ds3.to_bytes() == m, "DnaString read back then pushed");
    // Lmer
    macro_rules! lm {
        ($t:ty, $name:expr) => {{
            let len = c.rng.below(<$t>::max_len() + 1);
            let b = c.rng.bases(len, 4);
            let x = <$t>::from_slice(&b);
            let y: $t = roundtrip(&x, $name)?;
            ensure!(y == x && mer_bytes(&y) == b && y.len() == len, "{} of length {} round trip", $name, len);
        }};
    }
    lm!(Lmer1, "Lmer1");
    lm!(Lmer2, "Lmer2");
    lm!(Lmer3, "Lmer3");
    // PackedDnaStringSet
    let mut set = PackedDnaStringSet::new();
    let mut model = Vec::new();
    for _ in 0..c.rng.below(5) {
        let b = c.rng.bases(c.rng.below(70), 4);
        set.add(&b);
        model.push(b);
    }
    let set2 = roundtrip(&set, "PackedDnaStringSet")?;
    ensure!(set2.len() == model.len(), "PackedDnaStringSet length after round trip");
    for (i, b) in model.iter().enumerate() {
        ensure!(set2.get(i).bytes() == *b, "PackedDnaStringSet::get({}) after round trip", i);
    }
    c.count("value_round_trips", 8);
    c.nontrivial(H::new().u(idx as u64).b(&s).get());
    Ok(())
}

/// link normal form: (node, '+'|'-', node, '+'|'-'); a link and its reverse-complement twin are one
type Link = (usize, char, usize, char);

fn flip(o: char) -> char {
    if o == '+' { '-' } else { '+' }
}
/// `pal(i)`: node i is a palindromic single-k-mer node; its two orientations are the same thing
fn normalise(l: Link, pal: &dyn Fn(usize) -> bool) -> Link {
    let fix = |l: Link| -> Link { (l.0, if pal(l.0) { '+' } else { l.1 }, l.2, if pal(l.2) { '+' } else { l.3 }) };
    let twin = (l.2, flip(l.3), l.0, flip(l.1));
    fix(l).min(fix(twin))
}
fn oriented_seq(seq: &[u8], o: char) -> S {
    if o == '+' { seq.to_vec() } else { rc(seq) }
}

struct GraphFacts {
    pal: Vec<bool>,
    seqs: Vec<S>,
    /// normalised adjacency -> true if it touches a palindromic single-k-mer node
    links: BTreeMap<Link, bool>,
    right_edges: Vec<Vec<(usize, u8)>>,
    hairpin_right: u64,
    hairpin_left: u64,
    circular: u64,
}

fn facts<K: Kmer, D: std::fmt::Debug>(g: &DebruijnGraph<K, D>) -> GraphFacts {
    let k = K::k();
    let seqs: Vec<S> = (0..g.len()).map(|i| g.get_node(i).sequence().bytes()).collect();
    let pal = |i: usize| seqs[i].len() == k && is_pal(&seqs[i], g.base.stranded);
    let mut links = BTreeMap::new();
    let mut right_edges = Vec::new();
    let (mut hr, mut hl, mut circ) = (0, 0, 0);
    for i in 0..g.len() {
        let n = g.get_node(i);
        for (t, d, _) in n.l_edges() {
            let l: Link = (i, '-', t, if side_of(d) == L { '+' } else { '-' });
            links.insert(normalise(l, &pal), pal(i) || pal(t));
            if t == i && side_of(d) == L {
                hl += 1;
            }
        }
        let mut re = Vec::new();
        for (t, d, _) in n.r_edges() {
            let l: Link = (i, '+', t, if side_of(d) == L { '+' } else { '-' });
            links.insert(normalise(l, &pal), pal(i) || pal(t));
            re.push((t, side_of(d)));
            if t == i && side_of(d) == R {
                hr += 1;
            }
            if t == i && side_of(d) == L {
                circ += 1;
            }
        }
        right_edges.push(re);
    }
    let palv: Vec<bool> = (0..g.len()).map(|i| pal(i)).collect();
    GraphFacts { pal: palv, seqs, links, right_edges, hairpin_right: hr, hairpin_left: hl, circular: circ }
}

fn check_gfa(text: &str, f: &GraphFacts, k: usize, tags: Option<&dyn Fn(usize) -> String>, what: &str) -> Result<(), String> {
    let mut lines = text.lines();
    ensure!(lines.next() == Some("H\tVN:Z:debruijn-rs"), "{}: GFA header missing", what);
    let mut seen_nodes: BTreeSet<usize> = BTreeSet::new();
    let mut listed: BTreeMap<Link, u32> = BTreeMap::new();
    for line in lines {
        let cols: Vec<&str> = line.split('\t').collect();
        match cols[0] {
            "S" => {
                ensure!(cols.len() >= 3, "{}: malformed S line {:?}", what, line);
                let id: usize = cols[1].parse().map_err(|_| format!("{}: bad node id in {:?}", what, line))?;
                ensure!(id < f.seqs.len(), "{}: S line for unknown node {}", what, id);
                ensure!(seen_nodes.insert(id), "{}: node {} listed twice", what, id);
                ensure!(cols[2] == ascii(&f.seqs[id]), "{}: S line of node {} has sequence {} but the node spells {}", what, id, cols[2], ascii(&f.seqs[id]));
                if let Some(t) = tags {
                    let rest = cols[3..].join("\t");
                    ensure!(rest == t(id), "{}: tags of node {} are {:?}, expected {:?}", what, id, rest, t(id));
                } else {
                    ensure!(cols.len() == 3, "{}: unexpected extra columns on S line {:?}", what, line);
                }
            }
            "L" => {
                ensure!(cols.len() == 6, "{}: malformed L line {:?}", what, line);
                let a: usize = cols[1].parse().map_err(|_| format!("{}: bad L line {:?}", what, line))?;
                let b: usize = cols[3].parse().map_err(|_| format!("{}: bad L line {:?}", what, line))?;
                let oa = cols[2].chars().next().unwrap_or('?');
                let ob = cols[4].chars().next().unwrap_or('?');
                ensure!(a < f.seqs.len() && b < f.seqs.len() && "+-".contains(oa) && "+-".contains(ob), "{}: bad L line {:?}", what, line);
                ensure!(cols[5] == format!("{}M", k - 1), "{}: overlap field {:?}, expected {}M", what, cols[5], k - 1);
                // orientations must give a K-1 overlap
                let sa = oriented_seq(&f.seqs[a], oa);
                let sb = oriented_seq(&f.seqs[b], ob);
                ensure!(
                    sa[sa.len() - (k - 1)..] == sb[..k - 1],
                    "{}: link {:?}: with these orientations the two nodes do not overlap by K-1 bases",
                    what,
                    line
                );
                let n = normalise((a, oa, b, ob), &|i| f.pal[i]);
                ensure!(f.links.contains_key(&n), "{}: link {:?} is not an adjacency of the graph", what, line);
                *listed.entry(n).or_insert(0) += 1;
            }
            _ => return Err(format!("{}: unexpected GFA line {:?}", what, line)),
        }
    }
    ensure!(seen_nodes.len() == f.seqs.len(), "{}: {} nodes listed, graph has {}", what, seen_nodes.len(), f.seqs.len());
    for (l, touches_pal) in &f.links {
        let n = *listed.get(l).unwrap_or(&0);
        if *touches_pal {
            ensure!(n >= 1 && n <= 2, "{}: adjacency {:?} (touching a palindromic single-k-mer node) listed {} times", what, l, n);
        } else {
            ensure!(n == 1, "{}: adjacency {:?} is listed {} times in the GFA (must be exactly once)", what, l, n);
        }
    }
    Ok(())
}

fn check_json(text: &str, f: &GraphFacts, rest: &Option<Value>, payload: &dyn Fn(usize) -> Value, what: &str) -> Result<(), String> {
    let v: Value = serde_json::from_str(text).map_err(|e| format!("{}: JSON export does not parse: {} — text: {}", what, e, &text[..text.len().min(300)].replace('\n', "\\n")))?;
    let nodes = v["nodes"].as_array().ok_or_else(|| format!("{}: no nodes array", what))?;
    ensure!(nodes.len() == f.seqs.len(), "{}: JSON lists {} nodes, graph has {}", what, nodes.len(), f.seqs.len());
    for (i, n) in nodes.iter().enumerate() {
        ensure!(n["id"] == json!(i.to_string()), "{}: node {} has id {}", what, i, n["id"]);
        ensure!(n["L"] == json!(f.seqs[i].len()), "{}: node {} has L {}", what, i, n["L"]);
        ensure!(n["D"] == payload(i), "{}: node {} payload {} != {}", what, i, n["D"], payload(i));
        if f.seqs[i].len() < 256 {
            ensure!(n["Se"] == json!(ascii(&f.seqs[i])), "{}: node {} sequence {} != {}", what, i, n["Se"], ascii(&f.seqs[i]));
        }
    }
    let links = v["links"].as_array().ok_or_else(|| format!("{}: no links array", what))?;
    let mut exp = Vec::new();
    for (i, re) in f.right_edges.iter().enumerate() {
        for (t, side) in re {
            exp.push(json!({"source": i.to_string(), "target": t.to_string(), "D": if *side == L { "L" } else { "R" }}));
        }
    }
    ensure!(*links == exp, "{}: JSON links {:?} != right-going edges {:?}", what, links, exp);
    if let Some(Value::Object(m)) = rest {
        for (kx, vx) in m {
            ensure!(&v[kx] == vx, "{}: extra key {} not carried over", what, kx);
        }
    }
    Ok(())
}

fn export_checks<K: Kmer + Serialize + DeserializeOwned + Send + Sync>(c: &mut Case, g: &DebruijnGraph<K, u32>, what: &str) -> Result<GraphFacts, String> {
    let k = K::k();
    let f = facts(g);
    // GFA through all three entry points
    let mut buf: Vec<u8> = Vec::new();
    g.write_gfa(&mut buf).map_err(|e| format!("write_gfa: {}", e))?;
    let text = String::from_utf8(buf).map_err(|_| "GFA not UTF-8".to_string())?;
    check_gfa(&text, &f, k, None, &format!("{} write_gfa", what))?;
    if c.rng.chance(1, 4) && !c.lane_miri {
        let dir = std::env::temp_dir();
        let p1 = dir.join(format!("vharness-{}-{}-{}.gfa", std::process::id(), c.idx, c.rng.next()));
        g.to_gfa(&p1).map_err(|e| format!("to_gfa: {}", e))?;
        let t1 = std::fs::read_to_string(&p1).map_err(|e| format!("to_gfa file: {}", e))?;
        let _ = std::fs::remove_file(&p1);
        ensure!(t1 == text, "{}: to_gfa file differs from write_gfa output", what);
        let p2 = dir.join(format!("vharness-{}-{}-{}.tags.gfa", std::process::id(), c.idx, c.rng.next()));
        g.to_gfa_with_tags(&p2, |n| format!("LN:i:{}\tDA:i:{}", n.len(), n.data())).map_err(|e| format!("to_gfa_with_tags: {}", e))?;
        let t2 = std::fs::read_to_string(&p2).map_err(|e| format!("to_gfa_with_tags file: {}", e))?;
        let _ = std::fs::remove_file(&p2);
        let datas: Vec<u32> = (0..g.len()).map(|i| *g.get_node(i).data()).collect();
        let lens: Vec<usize> = f.seqs.iter().map(|s| s.len()).collect();
        let tagf = move |i: usize| format!("LN:i:{}\tDA:i:{}", lens[i], datas[i]);
        check_gfa(&t2, &f, k, Some(&tagf), &format!("{} to_gfa_with_tags", what))?;
        c.count("gfa_files_written", 2);
    }
    // JSON
    for rest in [None, Some(json!({"meta": {"k": k, "tool": "vharness"}, "zzz": [1, 2, 3]})), Some(json!(17))] {
        let mut buf: Vec<u8> = Vec::new();
        g.to_json_rest(|d| json!({"count": d}), &mut buf, rest.clone());
        let text = String::from_utf8(buf).map_err(|_| "JSON not UTF-8".to_string())?;
        let datas: Vec<u32> = (0..g.len()).map(|i| *g.get_node(i).data()).collect();
        check_json(&text, &f, &rest, &|i| json!({"count": datas[i]}), &format!("{} to_json_rest(rest={})", what, rest.is_some()))?;
        c.count("json_exports_parsed", 1);
    }
    // persistence of the finished graph: every query answered identically
    if !c.lane_miri || g.len() <= 4 {
        let g2: DebruijnGraph<K, u32> = roundtrip(g, &format!("{} DebruijnGraph", what))?;
        let f2 = facts(&g2);
        ensure!(f2.seqs == f.seqs && f2.links == f.links && f2.right_edges == f.right_edges, "{}: graph read back answers edge queries differently", what);
        ensure!(g2.base.stranded == g.base.stranded && g2.base.exts == g.base.exts && g2.base.data == g.base.data, "{}: graph read back differs in flags/exts/data", what);
        let ti = TermIndex::new(f.seqs.clone(), k, g.base.stranded);
        let mut qs: Vec<S> = Vec::new();
        for s in &f.seqs {
            qs.push(s[..k].to_vec());
            qs.push(rc(&s[s.len() - k..]));
        }
        for _ in 0..20 {
            qs.push(c.rng.bases(k, 4));
        }
        let mut st = EStats::default();
        check_find_link_queries(&g2, &ti, &qs, &mut st).map_err(|e| format!("{} (graph read back): {}", what, e))?;
        let b2: BaseGraph<K, u32> = roundtrip(&g.base, "BaseGraph")?;
        ensure!(views(&b2).iter().map(|n| (n.seq.clone(), n.exts, n.data)).collect::<Vec<_>>() == views(&g.base).iter().map(|n| (n.seq.clone(), n.exts, n.data)).collect::<Vec<_>>(), "{}: BaseGraph round trip", what);
        c.count("graph_round_trips", 1);
    }
    Ok(f)
}

fn c20_case<K: Kmer + Serialize + DeserializeOwned + Send + Sync>(c: &mut Case, gc: &GCase) -> Result<(), String> {
    let seqs = whole_reads(&gc.reads);
    let (gp, _) = lib_direct::<K>(&seqs, gc.stranded, gc.thr);
    // payload u32 = number of observations folded
    let mut b: BaseGraph<K, u32> = BaseGraph::new(gc.stranded);
    for i in 0..gp.len() {
        let n = gp.get_node(i);
        b.add(n.sequence().bytes(), n.exts(), n.data().ids.len() as u32);
    }
    let g = b.finish();
    if c.verbose {
        for i in 0..g.len() {
            let n = g.get_node(i);
            c.log(|| format!("node {} seq {} exts {:?} L{:?} R{:?}", i, ascii(&n.sequence().bytes()), n.exts(), n.l_edges(), n.r_edges()));
        }
        let mut buf: Vec<u8> = Vec::new();
        let _ = g.write_gfa(&mut buf);
        c.log(|| String::from_utf8_lossy(&buf).to_string());
    }
    let f = export_checks(c, &g, "graph from reads")?;
    c.count("graphs", 1);
    c.count("empty_graphs", (g.len() == 0) as u64);
    c.count("single_node_graphs", (g.len() == 1) as u64);
    c.count("link_free_graphs", (g.len() > 0 && f.links.is_empty()) as u64);
    c.count("adjacencies", f.links.len() as u64);
    c.count("right_hairpin_self_links", f.hairpin_right);
    c.count("left_hairpin_self_links", f.hairpin_left);
    c.count("circular_self_links", f.circular);
    let last_no_right = g.len() > 1 && f.right_edges[g.len() - 1].is_empty() && f.right_edges[..g.len() - 1].iter().any(|r| !r.is_empty());
    c.count("graphs_last_node_without_right_links", last_no_right as u64);
    c.count("graphs_with_long_nodes_256", f.seqs.iter().any(|s| s.len() >= 256) as u64);
    c.count("cases_stranded", gc.stranded as u64);
    if !f.links.is_empty() {
        c.nontrivial(gc.hash());
    }
    c.sample(|| gc.json());
    Ok(())
}

/// hand-built graphs with dangling extensions (bits that resolve to no node), self links, long nodes
fn c20_synthetic(c: &mut Case) -> Result<(), String> {
    type K = Kmer20;
    let k = 20;
    let stranded = c.rng.chance(1, 2);
    let mut b: BaseGraph<K, u32> = BaseGraph::new(stranded);
    let mut seen: BTreeSet<S> = BTreeSet::new();
    let nn = c.rng.below(6);
    let want_long = c.idx % 500 == 7 && !c.lane_miri;
    for i in 0..nn {
        let len = k + if want_long && i == 0 { *c.rng.pick(&[65_530usize, 70_000, 131_100, 150_000, 262_200, 524_300, 600_000, 800_000, 1_048_600]) } else { *c.rng.pick(&[0usize, 0, 1, 2, 7, 300]) };
        let s = c.rng.bases(len, 4);
        let ws: Vec<S> = s.windows(k).map(|w| canon_s(w, stranded)).collect();
        if ws.iter().any(|w| seen.contains(w)) || ws.iter().collect::<BTreeSet<_>>().len() != ws.len() {
            continue;
        }
        for w in ws {
            seen.insert(w);
        }
        // arbitrary extension bits: many dangle
        b.add(&s, Exts::new((c.rng.next() & 0xff) as u8), i as u32);
    }
    let g = b.finish();
    let f = export_checks(c, &g, "hand-built graph with dangling extensions")?;
    c.count("synthetic_graphs", 1);
    c.count("graphs_with_node_longer_than_65536", f.seqs.iter().any(|s| s.len() > 65_536) as u64);
    c.count("graphs_with_node_longer_than_524288", f.seqs.iter().any(|s| s.len() > 524_288) as u64);
    c.count("adjacencies", f.links.len() as u64);
    let dangling = (0..g.len()).any(|i| {
        let n = g.get_node(i);
        (side_bits(n.exts().val, R).count_ones() as usize) > f.right_edges[i].len()
    });
    c.count("graphs_with_dangling_right_extensions", dangling as u64);
    c.nontrivial(H::new().u(c.idx).u(g.len() as u64).get());
    Ok(())
}

pub const RULE_C20: &str = "values group: serde_json round trip of every k-mer type (19), all 256 Exts, Dir, DnaString (block-boundary lengths), Lmer1-3, PackedDnaStringSet, compared with == and by querying; graphs group: graph from a hostile read set (hairpins with odd K give right/left-side self links, tandem repeats give circular ones; empty, single-node and link-free graphs occur) through write_gfa / to_gfa / to_gfa_with_tags (parsed: one S line per node with its sequence and tags; every L line an adjacency with K-1 overlap under its orientations; every adjacency of edges() listed exactly once, palindromic single-k-mer nodes excepted) and to_json_rest with rest None / object / non-object (parsed with serde_json; nodes, payloads, sequences, links == right-going edges), plus serde_json round trip of DebruijnGraph and BaseGraph with find_link/edge queries compared; synthetic group: hand-built graphs with arbitrary extension bits (dangling), nodes >= 256 bases; distinct = hash(read set); non-trivial = graph has at least one adjacency";

pub fn run_c20(ctx: &Ctx) {
    ctx.run_group("values", ctx.n(100_000, 5_000_000), false, |c| rt_values(c));
    let n = ctx.n(40_000, 2_000_000);
    ctx.run_group("graphs", n, false, |c| {
        let mut gc = gen_gcase(c);
        // odd K weighted up: hairpin self-links need odd K
        if c.rng.chance(1, 3) {
            gc.kidx = *c.rng.pick(&[1usize, 1, 7, 12]);
            let k = GRAPH_K_VALUES[gc.kidx];
            gc.reads = crate::gen::gen_reads(&c.rng, k);
            // explicit hairpin
            let u = c.rng.bases(k + c.rng.below(4), 4);
            let mut h = u.clone();
            h.extend(rc(&u));
            gc.reads.push(h);
            gc.stranded = false;
        }
        with_graph_k!(gc.kidx, K => c20_case::<K>(c, &gc))
    });
    ctx.run_group("synthetic", ctx.n(30_000, 1_500_000), false, |c| c20_synthetic(c));
    if !ctx.is_miri() {
        ctx.require("right_hairpin_self_links", 20);
        ctx.require("left_hairpin_self_links", 20);
        ctx.require("circular_self_links", 20);
        ctx.require("graphs_last_node_without_right_links", 50);
        ctx.require("empty_graphs", 5);
        ctx.require("single_node_graphs", 20);
        ctx.require("graphs_with_dangling_right_extensions", 50);
        ctx.require("graphs_with_node_longer_than_65536", 10);
        ctx.require("graphs_with_node_longer_than_524288", 3);
        ctx.require("graph_round_trips", 1000);
    }
}
