//! C13: k-mer extraction agrees across all containers.

use crate::ktypes::*;
use crate::model::*;
use crate::runner::{Case, Ctx};
use crate::util::{ascii, H};
use crate::{ensure, with_all_k};
use debruijn::dna_string::DnaString;
use debruijn::vmer::{Lmer, Lmer1, Lmer2, Lmer3};
use debruijn::{Dir, DnaBytes, DnaSlice, Exts, Kmer, Mer, Vmer};
use serde_json::json;

type Lmer4 = Lmer<[u64; 4]>;
type Lmer5 = Lmer<[u64; 5]>;
type Lmer6 = Lmer<[u64; 6]>;

/// all extraction routes of container `v` (which reads as `s`) against K::from_bytes of the window
fn check_container<K: Kmer, V: Vmer>(name: &str, v: &V, s: &[u8], c: &mut Case, all_positions: bool) -> Result<u64, String> {
    let k = K::k();
    let n = s.len();
    let nk = (n + 1).saturating_sub(k);
    let mut checks = 0u64;
    ensure!(v.len() == n, "{}: len {} != {}", name, v.len(), n);
    // iterators: exactly max(0, n-K+1) items, in order
    let items: Vec<K> = v.iter_kmers::<K>().collect();
    ensure!(items.len() == nk, "{}: iter_kmers::<K={}> yields {} items for a sequence of length {} (expected {})", name, k, items.len(), n, nk);
    for (i, it) in items.iter().enumerate() {
        ensure!(
            kstr(it) == s[i..i + k],
            "{}: item {} of iter_kmers::<K={}> is {:?}, bases {}..{} are {} (seq {})",
            name, i, k, it, i, i + k, ascii(&s[i..i + k]), ascii(s)
        );
    }
    checks += nk as u64;
    // the same iterator driven through nth / skip / step_by / count / last
    {
        ensure!(v.iter_kmers::<K>().count() == nk, "{}: iter_kmers::<K={}>().count() != {}", name, k, nk);
        let last = v.iter_kmers::<K>().last();
        ensure!(last.map(|x| kstr(&x)) == if nk > 0 { Some(s[n - k..].to_vec()) } else { None }, "{}: iter_kmers::<K={}>().last()", name, k);
        for j in [0usize, nk.saturating_sub(1), nk, nk + 1, c.rng.below(nk + 2)] {
            let got = v.iter_kmers::<K>().nth(j).map(|x| kstr(&x));
            let exp = if j < nk { Some(s[j..j + k].to_vec()) } else { None };
            ensure!(got == exp, "{}: iter_kmers::<K={}>().nth({}) of {} k-mers = {:?}", name, k, j, nk, got.map(|g| ascii(&g)));
            let got = v.iter_kmers::<K>().skip(j).next().map(|x| kstr(&x));
            ensure!(got == exp, "{}: iter_kmers::<K={}>().skip({}).next() of {} k-mers", name, k, j, nk);
        }
        let step = 1 + c.rng.below(5);
        let got: Vec<S> = v.iter_kmers::<K>().step_by(step).map(|x| kstr(&x)).collect();
        let exp: Vec<S> = (0..nk).step_by(step).map(|i| s[i..i + k].to_vec()).collect();
        ensure!(got == exp, "{}: iter_kmers::<K={}>().step_by({}) over {} k-mers", name, k, step, nk);
        // interleaved nth and next on one iterator
        let mut it = v.iter_kmers::<K>();
        let mut cur = 0usize;
        for _ in 0..6 {
            let j = c.rng.below(4);
            let got = if c.rng.chance(1, 2) { cur += j; it.nth(j) } else { it.next() };
            let exp = if cur < nk { Some(s[cur..cur + k].to_vec()) } else { None };
            ensure!(got.map(|x| kstr(&x)) == exp, "{}: iter_kmers::<K={}> interleaved nth/next at item {} of {}", name, k, cur, nk);
            cur += 1;
            if cur > nk { break; }
        }
        let gote: Vec<S> = v.iter_kmer_exts::<K>(Exts::new(0)).skip(nk.saturating_sub(1)).map(|x| kstr(&x.0)).collect();
        ensure!(gote.len() == nk.min(1), "{}: iter_kmer_exts::<K={}>().skip(n-1) yields {} items", name, k, gote.len());
        checks += 16;
    }
    // with extensions
    let be = (c.rng.next() & 0xff) as u8;
    let eitems: Vec<(K, Exts)> = v.iter_kmer_exts::<K>(Exts::new(be)).collect();
    ensure!(eitems.len() == nk, "{}: iter_kmer_exts::<K={}> yields {} items, expected {}", name, k, eitems.len(), nk);
    for (i, (km, e)) in eitems.iter().enumerate() {
        let mut exp = 0u8;
        if i > 0 { exp |= bit(L, s[i - 1]); } else { exp |= be & 0x0f; }
        if i + k < n { exp |= bit(R, s[i + k]); } else { exp |= be & 0xf0; }
        ensure!(kstr(km) == s[i..i + k], "{}: item {} of iter_kmer_exts::<K={}> has the wrong k-mer", name, i, k);
        ensure!(
            e.val == exp,
            "{}: item {} of iter_kmer_exts::<K={}> (n={}, boundary {:#04x}) has extensions {:#04x}, flanks say {:#04x}",
            name, i, k, n, be, e.val, exp
        );
    }
    checks += nk as u64;
    if nk == 0 {
        return Ok(checks);
    }
    // positional access
    let positions: Vec<usize> = if all_positions || nk <= 8 {
        (0..nk).collect()
    } else {
        let mut p = vec![0, nk - 1, c.rng.below(nk), c.rng.below(nk), c.rng.below(nk)];
        // positions whose k-mer crosses a 32-base block boundary
        for b in [31usize, 32, 33, 63, 64, 65, 95, 96] {
            if b < nk { p.push(b); }
            if b + 1 >= k && b + 1 - k < nk { p.push(b + 1 - k); }
        }
        p
    };
    for &i in &positions {
        let got: K = v.get_kmer(i);
        ensure!(
            got == K::from_bytes(&s[i..i + k]) && kstr(&got) == s[i..i + k],
            "{}: get_kmer::<K={}>({}) = {:?}, bases are {} (n={})",
            name, k, i, got, ascii(&s[i..i + k]), n
        );
        checks += 1;
    }
    let f: K = v.first_kmer();
    let l: K = v.last_kmer();
    ensure!(kstr(&f) == s[..k], "{}: first_kmer::<K={}>", name, k);
    ensure!(kstr(&l) == s[n - k..], "{}: last_kmer::<K={}> = {:?}, expected {}", name, k, l, ascii(&s[n - k..]));
    let (bf, bl): (K, K) = v.both_term_kmer();
    ensure!(bf == f && bl == l, "{}: both_term_kmer::<K={}>", name, k);
    let tl: K = v.term_kmer(Dir::Left);
    let tr: K = v.term_kmer(Dir::Right);
    ensure!(tl == f, "{}: term_kmer::<K={}>(Left) = {:?}, first k-mer is {:?}", name, k, tl, f);
    ensure!(tr == l, "{}: term_kmer::<K={}>(Right) = {:?}, last k-mer is {:?}", name, k, tr, l);
    checks += 6;
    Ok(checks)
}

fn c13_k<K: Kmer>(c: &mut Case) -> Result<(), String> {
    let k = K::k();
    let fixed = [0usize, 1, 31, 32, 33, 63, 64, 65, 96, 97, 128, 129];
    let long = !c.lane_miri && c.rng.chance(1, 500);
    if long { c.count("sequences_longer_than_65000", 1); }
    let n = if long {
        (1usize << c.rng.range(16, 17)) + *c.rng.pick(&[0usize, 1, 31, 32, 33, 64]) - c.rng.below(2) * 35
    } else if c.lane_miri {
        // interpreter lane: block-boundary lengths, where an unchecked read would leave the storage
        *c.rng.pick(&[32usize, 64, 65, 33, 96]).max(&k)
    } else { match c.rng.below(5) {
        0 => c.rng.below(k + 1),
        1 => k + c.rng.below(4),
        2 => *c.rng.pick(&fixed),
        _ => c.rng.below(201),
    } };
    let s = c.rng.bases(n, *c.rng.pick(&[2usize, 4, 4, 4]));
    let all = c.tier == crate::runner::Tier::Thorough && c.rng.chance(1, 4);
    let mut checks = 0u64;
    checks += check_container::<K, DnaString>("DnaString", &DnaString::from_bytes(&s), &s, c, all)?;
    {
        // same string through the exact-capacity constructor (storage allocation == blocks used)
        let asc: Vec<u8> = s.iter().map(|b| b"ACGT"[*b as usize]).collect();
        checks += check_container::<K, DnaString>("DnaString(from_acgt_bytes)", &DnaString::from_acgt_bytes(&asc), &s, c, false)?;
    }
    checks += check_container::<K, DnaBytes>("DnaBytes", &DnaBytes(s.clone()), &s, c, all)?;
    checks += check_container::<K, DnaSlice>("DnaSlice", &DnaSlice(&s), &s, c, all)?;
    // slices: every offset mod 32 over time, forward and reverse-complemented
    let pre = c.rng.below(70);
    let post = c.rng.below(70);
    {
        let mut back = c.rng.bases(pre, 4);
        back.extend_from_slice(&s);
        back.extend(c.rng.bases(post, 4));
        let bs = DnaString::from_bytes(&back);
        let sl = bs.slice(pre, pre + n);
        checks += check_container::<K, _>("DnaStringSlice(fwd)", &sl, &s, c, all)?;
        // nested slice of a slice
        if n > 2 {
            let a = c.rng.below(n / 2);
            let b = n - c.rng.below(n / 2);
            let sub = sl.slice(a, b);
            checks += check_container::<K, _>("DnaStringSlice(fwd, nested)", &sub, &s[a..b], c, false)?;
        }
    }
    {
        let mut back = c.rng.bases(pre, 4);
        back.extend(rc(&s));
        back.extend(c.rng.bases(post, 4));
        let bs = DnaString::from_bytes(&back);
        let sl = bs.slice(pre, pre + n).rc();
        checks += check_container::<K, _>("DnaStringSlice(rc)", &sl, &s, c, all)?;
        if n > 2 {
            let a = c.rng.below(n / 2);
            let b = n - c.rng.below(n / 2);
            let sub = sl.slice(a, b);
            checks += check_container::<K, _>("DnaStringSlice(rc, nested)", &sub, &s[a..b], c, false)?;
        }
    }
    if c.lane_miri {
        if n <= Lmer3::max_len() { checks += check_container::<K, Lmer3>("Lmer3", &Lmer3::from_slice(&s), &s, c, all)?; }
        c.count("sequences", 1);
        c.count("extraction_checks", checks);
        c.nontrivial(H::new().u(k as u64).b(&s).get());
        return Ok(());
    }
    if long {
        // positions around the 2^16 boundary and the very end
        let ds = DnaString::from_bytes(&s);
        for i in [65_535usize, 65_536, 65_537, 65_536 - k, n - k, n - k - 1, 65_504, 65_505] {
            if i + k <= n {
                let g: K = ds.get_kmer(i);
                ensure!(kstr(&g) == s[i..i + k], "DnaString of {} bases: get_kmer::<K={}>({})", n, k, i);
                let sl = ds.slice(i, n);
                let f: K = sl.first_kmer();
                ensure!(kstr(&f) == s[i..i + k], "slice({}, {}) of a long string: first_kmer::<K={}>", i, n, k);
            }
        }
    }
    // fixed-size strings of every capacity
    if n <= Lmer1::max_len() { checks += check_container::<K, Lmer1>("Lmer1", &Lmer1::from_slice(&s), &s, c, all)?; }
    if n <= Lmer2::max_len() { checks += check_container::<K, Lmer2>("Lmer2", &Lmer2::from_slice(&s), &s, c, all)?; }
    if n <= Lmer3::max_len() { checks += check_container::<K, Lmer3>("Lmer3", &Lmer3::from_slice(&s), &s, c, all)?; }
    if n <= Lmer4::max_len() { checks += check_container::<K, Lmer4>("Lmer4", &Lmer4::from_slice(&s), &s, c, all)?; }
    if n <= Lmer5::max_len() { checks += check_container::<K, Lmer5>("Lmer5", &Lmer5::from_slice(&s), &s, c, all)?; }
    if n <= Lmer6::max_len() { checks += check_container::<K, Lmer6>("Lmer6", &Lmer6::from_slice(&s), &s, c, all)?; }
    // bulk constructors
    let exp: Vec<S> = if n >= k { s.windows(k).map(|w| w.to_vec()).collect() } else { vec![] };
    let got: Vec<S> = K::kmers_from_bytes(&s).iter().map(|x| kstr(x)).collect();
    ensure!(got == exp, "kmers_from_bytes::<K={}> on length {}", k, n);
    let asc: Vec<u8> = s.iter().map(|b| b"ACGT"[*b as usize]).collect();
    let got: Vec<S> = K::kmers_from_ascii(&asc).iter().map(|x| kstr(x)).collect();
    ensure!(got == exp, "kmers_from_ascii::<K={}> on length {}", k, n);
    c.count("sequences", 1);
    c.count("extraction_checks", checks);
    c.count("sequences_shorter_than_k", (n < k) as u64);
    c.count("sequences_crossing_two_blocks", (n >= 65) as u64);
    if n >= k {
        c.nontrivial(H::new().u(k as u64).b(&s).u(pre as u64).get());
    }
    c.sample(|| json!({"K": k, "len": n, "slice_offset": pre, "seq": ascii(&s)}));
    Ok(())
}

/// a string longer than 2^31 bases (all A except a few planted bases): extraction near and beyond
/// the 2^31 / 2^32 base offsets (32-bit bit-address / base-index arithmetic)
fn c13_huge(c: &mut Case) -> Result<(), String> {
    let beyond32 = c.tier == crate::runner::Tier::Thorough && c.idx % 2 == 1;
    let n: usize = if beyond32 { (1usize << 32) + 200 } else { (1usize << 31) + 200 };
    let mut x = DnaString::blank(n);
    ensure!(x.len() == n, "blank({}) has length {}", n, x.len());
    let mut planted: std::collections::BTreeMap<usize, u8> = std::collections::BTreeMap::new();
    let marks: Vec<usize> = {
        let mut v = vec![(1usize << 31) - 70, (1usize << 31) - 1, 1usize << 31, (1usize << 31) + 33, n - 1, n - 40, 5, 100_000];
        if beyond32 {
            v.extend_from_slice(&[(1usize << 32) - 3, 1usize << 32, (1usize << 32) + 64]);
        }
        v
    };
    for &p in &marks {
        for d in 0..6usize {
            if p + d < n {
                let b = 1 + c.rng.below(3) as u8;
                x.set_mut(p + d, b);
                planted.insert(p + d, b);
            }
        }
    }
    let base_at = |i: usize| -> u8 { *planted.get(&i).unwrap_or(&0) };
    for &p in &marks {
        for start in [p.saturating_sub(20), p.saturating_sub(3), p, p + 2] {
            if start + 48 > n {
                continue;
            }
            ensure!(x.get(start) == base_at(start), "get({}) on a {}-base string", start, n);
            let g: Kmer24 = x.get_kmer(start);
            let exp: S = (start..start + 24).map(base_at).collect();
            ensure!(kstr(&g) == exp, "DnaString of {} bases: get_kmer::<Kmer24>({}) = {:?}, bases are {}", n, start, g, ascii(&exp));
            let g2: Kmer48 = x.get_kmer(start);
            let exp2: S = (start..start + 48).map(base_at).collect();
            ensure!(kstr(&g2) == exp2, "DnaString of {} bases: get_kmer::<Kmer48>({})", n, start);
            let sl = x.slice(start, (start + 100).min(n));
            let f: Kmer24 = sl.first_kmer();
            ensure!(kstr(&f) == exp, "slice({}, ..) of a {}-base string: first_kmer", start, n);
            let it: Vec<Kmer24> = sl.iter_kmers().take(3).collect();
            ensure!(it.len() == 3 && kstr(&it[0]) == exp, "slice({}, ..) of a {}-base string: iter_kmers", start, n);
            let r: Kmer24 = sl.rc().last_kmer();
            ensure!(kstr(&r) == rc(&exp), "rc slice at {} of a {}-base string: last_kmer", start, n);
        }
    }
    let l: Kmer24 = x.last_kmer();
    ensure!(kstr(&l) == (n - 24..n).map(base_at).collect::<S>(), "last_kmer of a {}-base string", n);
    c.count("huge_strings", 1);
    c.count("huge_strings_beyond_2_32", beyond32 as u64);
    c.nontrivial(H::new().u(n as u64).u(c.idx).get());
    Ok(())
}

pub const RULE_C13: &str = "case = random base string (length <K, K..K+3, block-boundary lengths 31/32/33/63/64/65/96/97/128/129, or random <= 200) x one of the 19 K types, read through DnaString, DnaBytes, DnaSlice, forward and reverse-complemented DnaStringSlice at a random backing offset 0-69 (plus a nested slice of each), and Lmer of capacity 1-6 words when it fits; checked: iter_kmers count and items, iter_kmer_exts items and flank masks with a random caller boundary mask, get_kmer at first/last/random and all block-crossing positions (all positions in a quarter of thorough cases), first/last/both_term/term_kmer, kmers_from_bytes/ascii; distinct = hash(K, sequence, offset); non-trivial = length >= K";

pub fn run_c13(ctx: &Ctx) {
    let per_type = ctx.n(15_000, 750_000);
    ctx.run_group("extract", per_type * 19, false, |c| {
        let idx = (c.idx % 19) as usize;
        with_all_k!(idx, K => c13_k::<K>(c))
    });
    if !ctx.is_miri() && ctx.lane == "release" {
        // 0.5 GiB (quick) / 1 GiB (thorough) of packed storage, one case at a time
        ctx.set_case_timeout(600);
        ctx.run_group_t("huge", ctx.n(1, 2), false, 1, |c| c13_huge(c));
        ctx.require("huge_strings", 1);
    }
    if !ctx.is_miri() {
        ctx.require("extraction_checks", 100_000);
        ctx.require("sequences_shorter_than_k", 100);
        ctx.require("sequences_longer_than_65000", 100);
        ctx.require("sequences_crossing_two_blocks", 100);
    }
}
