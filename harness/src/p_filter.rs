//! C05: k-mer counting/filtering equals reference grouping for any pass count.

use crate::gen::gen_reads;
use crate::gor::*;
use crate::ktypes::*;
use crate::model::*;
use crate::runner::{Case, Ctx, Tier};
use crate::util::{ascii, H};
use crate::{ensure, with_graph_k};
use boomphf::hashmap::BoomHashMap2;
use debruijn::dna_string::DnaString;
use debruijn::filter::{filter_kmers, CountFilter, CountFilterSet};
use debruijn::verif_hooks;
use debruijn::vmer::Lmer3;
use debruijn::{DnaBytes, Exts, Kmer, Vmer};
use serde_json::json;
use std::collections::{BTreeMap, BTreeSet};

/// all pass counts the `256/slices + 1` width rule can produce
pub fn reachable_pass_counts() -> Vec<usize> {
    let mut s: BTreeSet<usize> = BTreeSet::new();
    for slices in 1..=100_000usize {
        let sz = 256 / slices + 1;
        s.insert((256 + sz - 1) / sz);
    }
    s.into_iter().collect()
}

fn passes_for_slices(slices: usize) -> usize {
    let sz = 256 / slices + 1;
    (256 + sz - 1) / sz
}

/// pick a memory unit (bytes per "GB") that makes `filter_kmers` plan `target` passes, if possible
fn unit_for_passes(kmer_mem: usize, target: usize) -> Option<usize> {
    if kmer_mem == 0 {
        return None;
    }
    for slices in 1..=(kmer_mem + 1).min(400) {
        if passes_for_slices(slices) != target {
            continue;
        }
        if slices == 1 {
            return Some(kmer_mem + 1);
        }
        // need kmer_mem / unit + 1 == slices
        let unit = kmer_mem / (slices - 1);
        if unit > 0 && kmer_mem / unit + 1 == slices {
            return Some(unit);
        }
        let unit = kmer_mem / slices + 1;
        if unit > 0 && kmer_mem / unit + 1 == slices {
            return Some(unit);
        }
    }
    None
}

struct FCase {
    container: usize,
    kidx: usize,
    stranded: bool,
    report_all: bool,
    style_b: bool,
    seqs: Vec<Seq>,
    min_obs: usize,
}

fn gen_fcase(c: &mut Case) -> FCase {
    let kidx = if c.lane_miri {
        *c.rng.pick(&[0usize, 1, 3, 5])
    } else {
        pick_graph_k(&c.rng)
    };
    let k = GRAPH_K_VALUES[kidx];
    let mut reads = gen_reads(&c.rng, k);
    if c.rng.chance(1, 3) {
        // a group of > 20 equal keys so that an unstable sort would reorder observations
        let unit = c.rng.bases(c.rng.range(1, 3), 4);
        let n = k + 20 + c.rng.below(30);
        reads.push((0..n).map(|i| unit[i % unit.len()]).collect());
    }
    let style_b = c.rng.chance(1, 3);
    let mut seqs: Vec<Seq> = Vec::new();
    if !style_b {
        for (i, r) in reads.iter().enumerate() {
            // caller-supplied boundary extensions: arbitrary masks, including full sets
            let e = match c.rng.below(4) {
                0 => 0u8,
                1 => 0xff,
                _ => (c.rng.next() & 0xff) as u8,
            };
            seqs.push(Seq {
                bases: r.clone(),
                exts: e,
                label: i as u32,
            });
        }
    } else {
        // single-window pieces with their true flanks, globally unique labels
        let mut label = 0u32;
        for r in &reads {
            if r.len() < k {
                continue;
            }
            for i in 0..=(r.len() - k) {
                let mut e = 0u8;
                if i > 0 {
                    e |= bit(L, r[i - 1]);
                }
                if i + k < r.len() {
                    e |= bit(R, r[i + k]);
                }
                seqs.push(Seq {
                    bases: r[i..i + k].to_vec(),
                    exts: e,
                    label,
                });
                label += 1;
            }
        }
    }
    FCase {
        container: c.rng.below(3),
        kidx,
        stranded: c.rng.chance(1, 2),
        report_all: c.rng.chance(1, 2),
        style_b,
        seqs,
        min_obs: *c.rng.pick(&[0usize, 1, 1, 2, 2, 3]),
    }
}

type SpyOut<K> = (BoomHashMap2<K, Exts, Vec<(u32, u8)>>, Vec<K>, u64);

fn run_spy<K: Kmer>(fc: &FCase, unit: Option<usize>) -> (SpyOut<K>, Vec<verif_hooks::PassRecord>) {
    let spy = Box::new(SpySummarizer::new(fc.min_obs));
    verif_hooks::set_filter_mem_unit(unit);
    // the input container is part of the configuration: growable string, byte vector, fixed-size string
    let fits_lmer = fc.seqs.iter().all(|s| s.bases.len() <= Lmer3::max_len());
    let (idx, all): (BoomHashMap2<K, Exts, Vec<(u32, u8)>>, Vec<K>) = match fc.container {
        1 => {
            let input: Vec<(DnaBytes, Exts, u32)> = fc.seqs.iter().map(|s| (DnaBytes(s.bases.clone()), Exts::new(s.exts), s.label)).collect();
            filter_kmers(&input, &spy, fc.stranded, fc.report_all, 1)
        }
        2 if fits_lmer => {
            let input: Vec<(Lmer3, Exts, u32)> = fc.seqs.iter().map(|s| (Lmer3::from_slice(&s.bases), Exts::new(s.exts), s.label)).collect();
            filter_kmers(&input, &spy, fc.stranded, fc.report_all, 1)
        }
        _ => {
            let input = dna_seqs(&fc.seqs);
            filter_kmers(&input, &spy, fc.stranded, fc.report_all, 1)
        }
    };
    verif_hooks::set_filter_mem_unit(None);
    let calls = *spy.calls.borrow();
    ((idx, all, calls), verif_hooks::filter_pass_trace())
}

/// offline check of one spy run against the model table
fn check_spy_run<K: Kmer>(fc: &FCase, t: &Table, out: &SpyOut<K>, c: &mut Case) -> Result<(), String> {
    let k = K::k();
    let (idx, all, calls) = out;
    ensure!(
        *calls == t.len() as u64,
        "summarizer was invoked {} times for {} distinct k-mers",
        calls,
        t.len()
    );
    let mut seen: BTreeSet<S> = BTreeSet::new();
    let mut total_items = 0usize;
    let mut ids_seen: BTreeSet<u32> = BTreeSet::new();
    for (key, e, items) in idx.iter() {
        let ks = kstr(key);
        ensure!(seen.insert(ks.clone()), "key {} appears twice in the table", ascii(&ks));
        let row = t
            .get(&ks)
            .ok_or_else(|| format!("table key {} is not a (canonical) k-mer of the input", ascii(&ks)))?;
        ensure!(
            items.len() >= fc.min_obs,
            "key {} accepted with {} observations < {}",
            ascii(&ks),
            items.len(),
            fc.min_obs
        );
        ensure!(
            items.len() == row.obs.len(),
            "key {} was summarised over {} items, the input holds {} observations",
            ascii(&ks),
            items.len(),
            row.obs.len()
        );
        let pal = is_pal(&ks, fc.stranded);
        for (i, (label, mask)) in items.iter().enumerate() {
            let o = &row.obs[i];
            let exp_label = fc.seqs[o.read].label;
            ensure!(
                *label == exp_label,
                "key {}: item {} carries label {} but observation {} in input order is from sequence label {}",
                ascii(&ks),
                i,
                label,
                i,
                exp_label
            );
            let ok = *mask == o.mask || (pal && *mask == o.mask_other);
            ensure!(
                ok,
                "key {}: item {} (seq {}, pos {}) carries extensions {:#04x}, flanks say {:#04x}",
                ascii(&ks),
                i,
                o.read,
                o.pos,
                mask,
                o.mask
            );
            if fc.style_b {
                ensure!(ids_seen.insert(*label), "observation id {} delivered twice", label);
            }
        }
        let union: u8 = items.iter().fold(0, |a, x| a | x.1);
        ensure!(
            e.val == union,
            "row extension set {:#04x} != union of the items' extensions {:#04x}",
            e.val,
            union
        );
        ensure!(
            masks_agree(&ks, fc.stranded, row.mask, e.val),
            "key {}: extension set {:#04x}, model {:#04x}",
            ascii(&ks),
            e.val,
            row.mask
        );
        total_items += items.len();
        // lookup
        let got = idx.get(key);
        ensure!(
            matches!(got, Some((e2, d2)) if *e2 == *e && d2 == items),
            "get({}) does not return the row that iter() shows",
            ascii(&ks)
        );
        if !fc.stranded {
            ensure!(ks <= rc(&ks), "unstranded key {} is not canonical", ascii(&ks));
        }
    }
    // rows == accepted keys
    let mut rejected_items = 0usize;
    for (ks, row) in t {
        let accepted = row.obs.len() >= fc.min_obs;
        ensure!(
            accepted == seen.contains(ks),
            "key {} with {} observations: accepted by summarizer = {}, present in table = {}",
            ascii(ks),
            row.obs.len(),
            accepted,
            seen.contains(ks)
        );
        if !accepted {
            rejected_items += row.obs.len();
            ensure!(idx.get(&kfrom::<K>(ks)).is_none(), "rejected key {} can be looked up", ascii(ks));
        }
    }
    let windows: usize = fc.seqs.iter().map(|s| (s.bases.len() + 1).saturating_sub(k)).sum();
    ensure!(
        total_items + rejected_items == windows,
        "conservation: {} items summarised + {} rejected != {} windows",
        total_items,
        rejected_items,
        windows
    );
    // all_kmers
    if fc.report_all {
        let exp: Vec<S> = t.keys().cloned().collect();
        let got: Vec<S> = all.iter().map(|x| kstr(x)).collect();
        ensure!(
            got == exp,
            "all_kmers is not the ascending list of distinct k-mers (got {} entries, expected {})",
            got.len(),
            exp.len()
        );
    } else {
        ensure!(all.is_empty(), "all_kmers not empty although report_all_kmers = false");
    }
    // absent keys
    for _ in 0..20 {
        let q = c.rng.bases(k, 4);
        if !seen.contains(&q) {
            ensure!(idx.get(&kfrom::<K>(&q)).is_none(), "lookup of absent k-mer {} returned a row", ascii(&q));
            c.count("absent_lookups", 1);
        }
    }
    c.count("rows_checked", seen.len() as u64);
    c.count("observations_checked", total_items as u64);
    Ok(())
}

fn check_trace(trace: &[verif_hooks::PassRecord], windows: usize) -> Result<usize, String> {
    ensure!(!trace.is_empty(), "no bucket pass recorded");
    let mut pushed = 0usize;
    let mut prev_end = 0usize;
    for (i, (pi, start, end, n)) in trace.iter().enumerate() {
        ensure!(*pi == i, "pass indices not sequential: {:?}", trace);
        ensure!(*start == prev_end, "bucket ranges do not tile 0..256: {:?}", trace);
        ensure!(end > start, "empty bucket range: {:?}", trace);
        prev_end = *end;
        pushed += n;
    }
    ensure!(prev_end >= 256, "bucket ranges stop at {} < 256", prev_end);
    ensure!(
        pushed == windows,
        "passes pushed {} k-mer observations in total, input has {} windows",
        pushed,
        windows
    );
    Ok(trace.len())
}

fn canonical_rows<K: Kmer>(out: &SpyOut<K>) -> (BTreeMap<S, (u8, Vec<(u32, u8)>)>, Vec<S>) {
    let rows = out
        .0
        .iter()
        .map(|(k, e, d)| (kstr(k), (e.val, d.clone())))
        .collect();
    (rows, out.1.iter().map(|x| kstr(x)).collect())
}

fn c05_case<K: Kmer>(c: &mut Case, fc: &FCase, pass_targets: &[usize]) -> Result<(), String> {
    let k = K::k();
    let t = build_table(&fc.seqs, k, fc.stranded);
    let windows: usize = fc.seqs.iter().map(|s| (s.bases.len() + 1).saturating_sub(k)).sum();
    let kmer_mem = windows * std::mem::size_of::<(K, u32)>();
    // single pass reference run
    let (out1, trace1) = run_spy::<K>(fc, None);
    ensure!(check_trace(&trace1, windows)? == 1, "default budget made {} passes", trace1.len());
    check_spy_run(fc, &t, &out1, c).map_err(|e| format!("[1 pass] {}", e))?;
    let ref_rows = canonical_rows(&out1);
    let mut pass_counts_seen: Vec<usize> = vec![1];
    for target in pass_targets {
        let unit = match unit_for_passes(kmer_mem, *target) {
            Some(u) => u,
            None => continue,
        };
        let (out, trace) = run_spy::<K>(fc, Some(unit));
        let np = check_trace(&trace, windows).map_err(|e| format!("[unit {}] {}", unit, e))?;
        check_spy_run(fc, &t, &out, c).map_err(|e| format!("[{} passes] {}", np, e))?;
        let rows = canonical_rows(&out);
        ensure!(
            rows == ref_rows,
            "result with {} passes differs from the single-pass result",
            np
        );
        pass_counts_seen.push(np);
        c.count("multi_pass_runs", (np > 1) as u64);
        c.count("runs_with_3_or_more_passes", (np >= 3) as u64);
        c.count("runs_with_256_passes", (np == 256) as u64);
    }
    c.count("spy_runs", pass_counts_seen.len() as u64);
    // same sequences, same memory unit, but a label type of another size (so another pass plan) right
    // after a multi-pass run: the plan must be recomputed, not carried over
    if let Some(unit) = pass_targets.iter().rev().filter_map(|p| unit_for_passes(kmer_mem, *p)).next() {
        let input8: Vec<(DnaString, Exts, u8)> = fc.seqs.iter().map(|s| (DnaString::from_bytes(&s.bases), Exts::new(s.exts), s.label as u8)).collect();
        let inputw: Vec<(DnaString, Exts, [u64; 5])> = fc.seqs.iter().map(|s| (DnaString::from_bytes(&s.bases), Exts::new(s.exts), [s.label as u64; 5])).collect();
        verif_hooks::set_filter_mem_unit(Some(unit));
        let (a, _): (BoomHashMap2<K, Exts, u16>, Vec<K>) = filter_kmers(&input8, &Box::new(CountFilter::new(1)), fc.stranded, false, 1);
        let pa = verif_hooks::filter_pass_trace().len();
        let (b, _): (BoomHashMap2<K, Exts, u16>, Vec<K>) = filter_kmers(&inputw, &Box::new(CountFilter::new(1)), fc.stranded, false, 1);
        let pb = verif_hooks::filter_pass_trace().len();
        let (a2, _): (BoomHashMap2<K, Exts, u16>, Vec<K>) = filter_kmers(&input8, &Box::new(CountFilter::new(1)), fc.stranded, false, 1);
        verif_hooks::set_filter_mem_unit(None);
        for (name, tab) in [("u8 labels", &a), ("40-byte labels", &b), ("u8 labels after 40-byte labels", &a2)] {
            ensure!(tab.len() == t.len(), "{} (unit {}): table has {} k-mers, the input has {} distinct ones", name, unit, tab.len(), t.len());
            for (key, e, cnt) in tab.iter() {
                let ks = kstr(key);
                let row = t.get(&ks).ok_or_else(|| format!("{}: foreign key {}", name, ascii(&ks)))?;
                ensure!(*cnt as usize == row.obs.len().min(65535) && masks_agree(&ks, fc.stranded, row.mask, e.val), "{} (unit {}): row of {} is wrong", name, unit, ascii(&ks));
            }
        }
        c.count("label_size_switches", 1);
        c.count("label_size_switches_changing_pass_count", (pa != pb) as u64);
    }

    // the library's own summarizers
    let input = dna_seqs(&fc.seqs);
    for n in [0usize, 1, 2, 3, 7, 65535, 65536] {
        let unit = if c.rng.chance(1, 2) {
            unit_for_passes(kmer_mem, *c.rng.pick(&[2usize, 3, 5, 16, 256]))
        } else {
            None
        };
        verif_hooks::set_filter_mem_unit(unit);
        let (idx, all): (BoomHashMap2<K, Exts, u16>, Vec<K>) =
            filter_kmers(&input, &Box::new(CountFilter::new(n)), fc.stranded, fc.report_all, 1);
        let (idx2, _): (BoomHashMap2<K, Exts, Vec<u32>>, Vec<K>) = filter_kmers(
            &input,
            &Box::new(CountFilterSet::<u32>::new(n)),
            fc.stranded,
            false,
            1,
        );
        verif_hooks::set_filter_mem_unit(None);
        let got: BTreeMap<S, (u8, u16)> = idx.iter().map(|(k, e, d)| (kstr(k), (e.val, *d))).collect();
        let got2: BTreeMap<S, (u8, Vec<u32>)> =
            idx2.iter().map(|(k, e, d)| (kstr(k), (e.val, d.clone()))).collect();
        ensure!(got.len() == idx.len(), "CountFilter table holds a key twice");
        for (ks, row) in &t {
            let cnt = row.obs.len().min(65535);
            let valid = cnt >= n;
            match got.get(ks) {
                Some((m, d)) => {
                    ensure!(valid, "CountFilter({}): key {} with {} observations accepted", n, ascii(ks), row.obs.len());
                    ensure!(*d as usize == cnt, "CountFilter({}): count of {} is {}, expected {}", n, ascii(ks), d, cnt);
                    ensure!(
                        masks_agree(ks, fc.stranded, row.mask, *m),
                        "CountFilter({}): extensions of {} are {:#04x}, model {:#04x}",
                        n,
                        ascii(ks),
                        m,
                        row.mask
                    );
                }
                None => ensure!(!valid, "CountFilter({}): key {} with {} observations missing", n, ascii(ks), row.obs.len()),
            }
            let valid2 = row.obs.len() >= n;
            match got2.get(ks) {
                Some((m, d)) => {
                    ensure!(valid2, "CountFilterSet({}): key {} accepted with {} observations", n, ascii(ks), row.obs.len());
                    let mut labels: Vec<u32> = row.obs.iter().map(|o| fc.seqs[o.read].label).collect();
                    labels.sort();
                    labels.dedup();
                    ensure!(*d == labels, "CountFilterSet({}): labels of {} are {:?}, expected {:?}", n, ascii(ks), d, labels);
                    ensure!(masks_agree(ks, fc.stranded, row.mask, *m), "CountFilterSet: extensions of {}", ascii(ks));
                }
                None => ensure!(!valid2, "CountFilterSet({}): key {} missing", n, ascii(ks)),
            }
        }
        ensure!(got.keys().all(|x| t.contains_key(x)), "CountFilter table has a foreign key");
        ensure!(got2.keys().all(|x| t.contains_key(x)), "CountFilterSet table has a foreign key");
        if fc.report_all {
            let exp: Vec<S> = t.keys().cloned().collect();
            let gotall: Vec<S> = all.iter().map(|x| kstr(x)).collect();
            ensure!(gotall == exp, "CountFilter({}): all_kmers wrong", n);
        }
        c.count("count_filter_runs", 2);
    }

    c.count("cases_stranded", fc.stranded as u64);
    c.count("cases_style_b_unique_ids", fc.style_b as u64);
    c.count("cases_report_all", fc.report_all as u64);
    c.count("cases_input_as_byte_vectors", (fc.container == 1) as u64);
    c.count("cases_input_as_fixed_size_strings", (fc.container == 2) as u64);
    let npal = t.keys().filter(|x| is_pal(x, fc.stranded)).count();
    c.count("palindromic_keys", npal as u64);
    let repeated = t.values().filter(|r| r.obs.len() > 1).count();
    if repeated > 0 && pass_counts_seen.iter().any(|p| *p > 1) {
        let mut h = H::new();
        h.u(fc.kidx as u64).u(fc.stranded as u64);
        for s in &fc.seqs {
            h.b(&s.bases).u(s.exts as u64);
        }
        c.nontrivial(h.get());
    }
    c.sample(|| {
        json!({
            "K": GRAPH_K_NAMES[fc.kidx], "stranded": fc.stranded, "report_all_kmers": fc.report_all,
            "input_style": if fc.style_b { "single-window pieces, unique ids" } else { "whole reads" },
            "min_obs": fc.min_obs, "pass_counts_run": pass_counts_seen,
            "sequences": fc.seqs.iter().take(8).map(|s| json!([ascii(&s.bases), s.exts, s.label])).collect::<Vec<_>>(),
        })
    });
    Ok(())
}

/// hook-free multi-pass: a 128 KiB label type makes the real 10^9 constant produce several passes
fn c05_hookfree(c: &mut Case, npasses_wanted: usize) -> Result<(), String> {
    type Big = [u64; 16384];
    type K = Kmer12;
    let k = 12;
    let per = std::mem::size_of::<(K, Big)>();
    // slices = kmers*per / 1e9 + 1
    let kmers_needed = ((npasses_wanted - 1) * 1_000_000_000) / per + 64;
    let genome = crate::gen::gen_genome(&c.rng, kmers_needed + k - 1, 10, 40);
    let stranded = c.rng.chance(1, 2);
    // two reads: the genome and the rc of a part of it
    let reads = vec![genome.clone(), rc(&genome[..genome.len() / 8])];
    let input: Vec<(DnaString, Exts, Big)> = reads
        .iter()
        .enumerate()
        .map(|(i, r)| (DnaString::from_bytes(r), Exts::empty(), [i as u64; 16384]))
        .collect();
    verif_hooks::set_filter_mem_unit(None);
    let (idx, all): (BoomHashMap2<K, Exts, u16>, Vec<K>) =
        filter_kmers(&input, &Box::new(CountFilter::new(1)), stranded, true, 1);
    let trace = verif_hooks::filter_pass_trace();
    let seqs = whole_reads(&reads);
    let t = build_table(&seqs, k, stranded);
    let windows: usize = reads.iter().map(|r| r.len() + 1 - k).sum();
    let np = check_trace(&trace, windows)?;
    ensure!(np >= 2, "hook-free run made only {} pass(es)", np);
    ensure!(idx.len() == t.len(), "hook-free {} passes: {} keys, model {}", np, idx.len(), t.len());
    for (key, e, cnt) in idx.iter() {
        let ks = kstr(key);
        let row = t.get(&ks).ok_or_else(|| format!("foreign key {}", ascii(&ks)))?;
        ensure!(*cnt as usize == row.obs.len().min(65535), "hook-free: count of {}", ascii(&ks));
        ensure!(masks_agree(&ks, stranded, row.mask, e.val), "hook-free: extensions of {}", ascii(&ks));
    }
    let exp: Vec<S> = t.keys().cloned().collect();
    let got: Vec<S> = all.iter().map(|x| kstr(x)).collect();
    ensure!(got == exp, "hook-free: all_kmers wrong");
    c.count("hook_free_multi_pass_runs", 1);
    c.count("hook_free_passes", np as u64);
    c.nontrivial(H::new().u(np as u64).u(windows as u64).get());
    Ok(())
}

/// a 70 000-fold k-mer: CountFilter must saturate at 65535
fn c05_saturation(c: &mut Case) -> Result<(), String> {
    type K = Kmer5;
    let b = c.rng.base();
    let stranded = c.rng.chance(1, 2);
    let n = 70_000 + c.rng.below(1000);
    let read: S = vec![b; n + 4];
    let other = c.rng.bases(30, 4);
    // first a single-window piece of the same k-mer carrying all 8 boundary extensions, so that the
    // summary is "complete" long before the observations run out
    let full_first = c.rng.chance(1, 2);
    let mut seqs: Vec<Seq> = Vec::new();
    if full_first {
        seqs.push(Seq { bases: vec![b; 5], exts: 0xff, label: 7 });
    }
    seqs.push(Seq { bases: read.clone(), exts: 0, label: 0 });
    seqs.push(Seq { bases: other.clone(), exts: 0, label: 1 });
    // a LATE observation of the abundant k-mer that brings a new right neighbour
    {
        let mut late = vec![b; 5];
        late.push((b + 1 + c.rng.below(3) as u8) & 3);
        late.extend(c.rng.bases(3, 4));
        seqs.push(Seq { bases: late, exts: 0, label: 2 });
    }
    let input = dna_seqs(&seqs);
    let (idx, all): (BoomHashMap2<K, Exts, u16>, Vec<K>) =
        filter_kmers(&input, &Box::new(CountFilter::new(65535)), stranded, true, 1);
    let t = build_table(&seqs, 5, stranded);
    {
        let got: Vec<S> = all.iter().map(|x| kstr(x)).collect();
        let exp: Vec<S> = t.keys().cloned().collect();
        ensure!(got == exp, "saturation: all_kmers has {} entries for {} distinct k-mers (a k-mer summarised twice?)", got.len(), exp.len());
        let mut seen = BTreeSet::new();
        for (k, _, _) in idx.iter() {
            ensure!(seen.insert(kstr(k)), "saturation: key {} twice in the table", ascii(&kstr(k)));
        }
    }
    // also with a low threshold: every k-mer is accepted exactly once
    {
        let (idx1, _): (BoomHashMap2<K, Exts, u16>, Vec<K>) =
            filter_kmers(&input, &Box::new(CountFilter::new(1)), stranded, false, 1);
        ensure!(idx1.len() == t.len(), "saturation: CountFilter(1) table has {} rows for {} distinct k-mers", idx1.len(), t.len());
        for (ks, row) in &t {
            match idx1.get(&kfrom::<K>(ks)) {
                Some((e, cnt)) => {
                    ensure!(*cnt as usize == row.obs.len().min(65535), "saturation: count of {}", ascii(ks));
                    ensure!(masks_agree(ks, stranded, row.mask, e.val), "saturation: extensions of {} are {:#04x}, model {:#04x}", ascii(ks), e.val, row.mask);
                }
                None => return Err(format!("saturation: {} missing under CountFilter(1)", ascii(ks))),
            }
        }
    }
    for (ks, row) in &t {
        let exp = row.obs.len().min(65535);
        match idx.get(&kfrom::<K>(ks)) {
            Some((_, cnt)) => {
                ensure!(exp >= 65535 && *cnt as usize == exp, "saturation: {} has count {} expected {}", ascii(ks), cnt, exp)
            }
            None => ensure!(exp < 65535, "saturation: {} with {} observations rejected by CountFilter(65535)", ascii(ks), row.obs.len()),
        }
    }
    ensure!(idx.len() >= 1, "the 70000-fold k-mer is missing");
    c.count("saturated_counts_checked", 1);
    c.nontrivial(H::new().u(n as u64).u(b as u64).get());
    Ok(())
}

/// one multi-million k-mer input through CountFilter, compared with an independent count
fn c05_big(c: &mut Case) -> Result<(), String> {
    type K = Kmer20;
    let k = 20;
    let stranded = c.rng.chance(1, 2);
    let genome = crate::gen::gen_genome(&c.rng, if c.tier == Tier::Thorough { 400_000 + c.rng.below(200_000) } else { 60_000 + c.rng.below(40_000) }, 100, 80);
    let mut reads = Vec::new();
    let mut pos = 0;
    while pos + 50 < genome.len() {
        let len = 100 + c.rng.below(150);
        let end = (pos + len).min(genome.len());
        let r = genome[pos..end].to_vec();
        reads.push(if c.rng.chance(1, 2) { rc(&r) } else { r });
        pos += 10 + c.rng.below(30);
    }
    let seqs = whole_reads(&reads);
    let thr = c.rng.range(1, 4);
    let (rows, all) = lib_count_table::<K>(&seqs, stranded, thr, true);
    let t = build_table(&seqs, k, stranded);
    let windows: u64 = reads.iter().map(|r| (r.len() + 1).saturating_sub(k) as u64).sum();
    let mut n_valid = 0usize;
    for (ks, row) in &t {
        if row.obs.len() >= thr {
            n_valid += 1;
        }
        let _ = ks;
    }
    ensure!(rows.len() == n_valid, "big case: {} rows, model {}", rows.len(), n_valid);
    for (key, (e, cnt)) in &rows {
        let ks = kstr(key);
        let row = t.get(&ks).ok_or_else(|| format!("big case: foreign key {}", ascii(&ks)))?;
        ensure!(*cnt as usize == row.obs.len().min(65535), "big case: count of {}", ascii(&ks));
        ensure!(masks_agree(&ks, stranded, row.mask, e.val), "big case: extensions of {}", ascii(&ks));
    }
    ensure!(all.len() == t.len(), "big case: all_kmers has {} entries, model {}", all.len(), t.len());
    for (a, b) in all.iter().zip(t.keys()) {
        ensure!(kstr(a) == *b, "big case: all_kmers order");
    }
    c.count("big_cases", 1);
    c.count("big_case_windows", windows);
    c.nontrivial(H::new().u(windows).u(thr as u64).get());
    Ok(())
}

pub const RULE_C05: &str = "case = hostile read set (as for the graph properties, plus runs of >20 equal k-mers) as whole reads with arbitrary caller boundary-extension masks (style A) or as single-window pieces with true flanks and globally unique observation ids (style B) x K type x stranded x report_all_kmers x spy threshold; each case is run once per chosen pass count (hook: bytes-per-unit override) plus CountFilter/CountFilterSet for 7 thresholds; distinct = hash of (K, stranded, sequences, masks); non-trivial = a repeated k-mer exists AND a run with >= 2 passes happened";

pub fn run_c05(ctx: &Ctx) {
    let reach = reachable_pass_counts();
    ctx.note(format!("reachable pass counts ({}): {:?}", reach.len(), reach));
    let n = ctx.n(5000, 30_000);
    let thorough = ctx.tier == Tier::Thorough;
    let reach2 = reach.clone();
    ctx.run_group("filter", n, false, move |c| {
        let fc = gen_fcase(c);
        let targets: Vec<usize> = if thorough {
            reach2.iter().cloned().filter(|p| *p > 1).collect()
        } else {
            // 5 pass counts per case, rotating through the reachable set, always with 2, 3 and 256 represented
            let mut v = vec![2usize, 3, 256];
            v.push(reach2[1 + c.rng.below(reach2.len() - 1)]);
            v.push(reach2[1 + c.rng.below(reach2.len() - 1)]);
            v
        };
        with_graph_k!(fc.kidx, K => c05_case::<K>(c, &fc, &targets))
    });
    ctx.set_case_timeout(900);
    if !ctx.is_miri() && ctx.lane != "asan" {
        // quick: ~7*10^5 windows over > 65 536 distinct k-mers; thorough: ~5*10^6
        ctx.run_group_t("big", ctx.n(2, 4), false, 4, |c| c05_big(c));
    }
    if !ctx.is_miri() {
        ctx.run_group("saturation", ctx.n(6, 24), false, |c| c05_saturation(c));
        let (cases, passes) = if thorough { (3, 3) } else { (1, 2) };
        // sequential: each case transiently holds > 1 GB
        let saved = ctx.threads;
        let _ = saved;
        ctx.run_group("hookfree", cases, false, move |c| c05_hookfree(c, passes));
        ctx.require("multi_pass_runs", 500);
        ctx.require("runs_with_3_or_more_passes", 200);
        ctx.require("runs_with_256_passes", 50);
        ctx.require("hook_free_multi_pass_runs", 1);
        ctx.require("saturated_counts_checked", 1);
        ctx.require("cases_style_b_unique_ids", 50);
        ctx.require("label_size_switches_changing_pass_count", 100);
    }
}
