//! C19: index construction is schedule-independent and lookups are exact.

use crate::gor::*;
use crate::ktypes::*;
use crate::model::*;
use crate::p_graph::{gen_gcase, lib_filter_spy};
use crate::runner::{Case, Ctx, Tier};
use crate::util::{ascii, H};
use crate::ensure;
use debruijn::compression::compress_kmers;
use debruijn::dna_string::DnaString;
use debruijn::filter::remove_censored_exts;
use debruijn::graph::{BaseGraph, DebruijnGraph};
use debruijn::{Dir, Exts, Kmer, Mer};
use serde_json::json;
use std::cell::Cell;
use std::collections::{BTreeSet, HashSet};
use std::hash::{Hash, Hasher};
use std::sync::atomic::{AtomicBool, AtomicU32, AtomicU64, AtomicUsize, Ordering};
use std::sync::OnceLock;

// ---- spy k-mer type: delegates everything, logs which thread hashes it ------------------------

const LOG_CAP: usize = 4096;
static LOG: OnceLock<Vec<AtomicU32>> = OnceLock::new();
static LOG_IDX: AtomicUsize = AtomicUsize::new(0);
static HASH_CALLS: AtomicU64 = AtomicU64::new(0);
static NEXT_TID: AtomicU32 = AtomicU32::new(1);
static DELAY_MASK: AtomicU64 = AtomicU64::new(0);
static DELAY_SEED: AtomicU64 = AtomicU64::new(0);
static THREADS_SEEN: OnceLock<Vec<AtomicBool>> = OnceLock::new();

thread_local! {
    static TID: Cell<u32> = Cell::new(0);
}

fn my_tid() -> u32 {
    TID.with(|t| {
        if t.get() == 0 {
            t.set(NEXT_TID.fetch_add(1, Ordering::Relaxed));
        }
        t.get()
    })
}

fn log() -> &'static Vec<AtomicU32> {
    LOG.get_or_init(|| (0..LOG_CAP).map(|_| AtomicU32::new(0)).collect())
}
fn seen() -> &'static Vec<AtomicBool> {
    THREADS_SEEN.get_or_init(|| (0..65536).map(|_| AtomicBool::new(false)).collect())
}

fn log_reset() {
    LOG_IDX.store(0, Ordering::SeqCst);
    HASH_CALLS.store(0, Ordering::SeqCst);
    for s in seen().iter() {
        s.store(false, Ordering::Relaxed);
    }
}

#[derive(Copy, Clone, PartialEq, Eq, PartialOrd, Ord)]
pub struct SpyK<K: Kmer>(pub K);

impl<K: Kmer> std::fmt::Debug for SpyK<K> {
    fn fmt(&self, f: &mut std::fmt::Formatter<'_>) -> std::fmt::Result {
        self.0.fmt(f)
    }
}

impl<K: Kmer> Hash for SpyK<K> {
    fn hash<H2: Hasher>(&self, state: &mut H2) {
        let tid = my_tid();
        let n = HASH_CALLS.fetch_add(1, Ordering::Relaxed);
        seen()[(tid as usize) & 0xffff].store(true, Ordering::Relaxed);
        let i = LOG_IDX.fetch_add(1, Ordering::Relaxed);
        if i < LOG_CAP {
            log()[i].store(tid, Ordering::Relaxed);
        }
        let mask = DELAY_MASK.load(Ordering::Relaxed);
        if mask != 0 && (n & mask) == 0 {
            // injected delay between boomphf's atomic sections
            let spin = (n ^ DELAY_SEED.load(Ordering::Relaxed)).wrapping_mul(0x9E3779B97F4A7C15) >> 54; // 0..1023
            let t0 = std::time::Instant::now();
            while (t0.elapsed().as_nanos() as u64) < spin * 40 {
                std::hint::spin_loop();
            }
            if spin & 7 == 0 {
                std::thread::yield_now();
            }
        }
        self.0.hash(state)
    }
}

impl<K: Kmer> Mer for SpyK<K> {
    fn len(&self) -> usize { self.0.len() }
    fn is_empty(&self) -> bool { self.0.is_empty() }
    fn get(&self, pos: usize) -> u8 { self.0.get(pos) }
    fn set_mut(&mut self, pos: usize, val: u8) { self.0.set_mut(pos, val) }
    fn set_slice_mut(&mut self, pos: usize, nbases: usize, value: u64) { self.0.set_slice_mut(pos, nbases, value) }
    fn rc(&self) -> Self { SpyK(self.0.rc()) }
}

impl<K: Kmer> Kmer for SpyK<K> {
    fn empty() -> Self { SpyK(K::empty()) }
    fn k() -> usize { K::k() }
    fn to_u64(&self) -> u64 { self.0.to_u64() }
    fn from_u64(value: u64) -> Self { SpyK(K::from_u64(value)) }
    fn hamming_dist(&self, other: Self) -> u32 { self.0.hamming_dist(other.0) }
    fn extend_left(&self, v: u8) -> Self { SpyK(self.0.extend_left(v)) }
    fn extend_right(&self, v: u8) -> Self { SpyK(self.0.extend_right(v)) }
}

// ---- answers of a finished graph -----------------------------------------------------------------

type Ans = Option<(usize, u8, bool)>;

fn norm(e: Option<(usize, Dir, bool)>) -> Ans {
    e.map(|(i, d, f)| (i, side_of(d), f))
}

struct Snapshot {
    nodes: Vec<(S, u8, u32)>,
    links: Vec<Ans>,
    edges: Vec<Vec<(usize, u8, bool)>>,
}

fn snapshot<K: Kmer>(g: &DebruijnGraph<K, u32>, queries: &[S]) -> Snapshot {
    let nodes = (0..g.len())
        .map(|i| {
            let n = g.get_node(i);
            (n.sequence().bytes(), n.exts().val, *n.data())
        })
        .collect();
    let mut links = Vec::with_capacity(queries.len() * 2);
    for q in queries {
        let kq = kfrom::<K>(q);
        links.push(norm(g.find_link(kq, Dir::Left)));
        links.push(norm(g.find_link(kq, Dir::Right)));
    }
    let mut edges = Vec::with_capacity(g.len() * 2);
    for i in 0..g.len() {
        let n = g.get_node(i);
        edges.push(n.l_edges().iter().map(|e| (e.0, side_of(e.1), e.2)).collect());
        edges.push(n.r_edges().iter().map(|e| (e.0, side_of(e.1), e.2)).collect());
    }
    Snapshot { nodes, links, edges }
}

fn compare(a: &Snapshot, b: &Snapshot, queries: &[S], what: &str) -> Result<(), String> {
    ensure!(a.nodes.len() == b.nodes.len(), "{}: node count {} vs {}", what, a.nodes.len(), b.nodes.len());
    for i in 0..a.nodes.len() {
        ensure!(a.nodes[i] == b.nodes[i], "{}: node {} (id/order/sequence/exts/payload) differs", what, i);
    }
    for i in 0..a.links.len() {
        ensure!(
            a.links[i] == b.links[i],
            "{}: find_link({}, side {}) = {:?} vs {:?}",
            what,
            ascii(&queries[i / 2]),
            i % 2,
            a.links[i],
            b.links[i]
        );
    }
    for i in 0..a.edges.len() {
        ensure!(a.edges[i] == b.edges[i], "{}: edges of node {} side {} differ: {:?} vs {:?}", what, i / 2, i % 2, a.edges[i], b.edges[i]);
    }
    Ok(())
}

fn make_queries(c: &mut Case, seqs: &[S], k: usize, max_nodes: usize) -> Vec<S> {
    let mut q: Vec<S> = Vec::new();
    let stride = (seqs.len() / max_nodes.max(1)).max(1);
    for (i, s) in seqs.iter().enumerate() {
        if i % stride != 0 {
            continue;
        }
        let f = s[..k].to_vec();
        let l = s[s.len() - k..].to_vec();
        q.push(rc(&f));
        q.push(rc(&l));
        // absent: a one-base variant of a terminal k-mer, an internal k-mer
        let mut m = f.clone();
        let p = c.rng.below(k);
        m[p] = (m[p] + 1 + c.rng.below(3) as u8) & 3;
        q.push(m);
        if s.len() > k + 1 {
            let j = 1 + c.rng.below(s.len() - k - 1);
            q.push(s[j..j + k].to_vec());
        }
        q.push(f);
        q.push(l);
    }
    for _ in 0..(if c.lane_miri { 6 } else { 200 }) {
        q.push(c.rng.bases(k, 4));
    }
    q
}

fn check_against_index(snap: &Snapshot, queries: &[S], k: usize, stranded: bool) -> Result<(u64, u64), String> {
    let ti = TermIndex::new(snap.nodes.iter().map(|n| n.0.clone()).collect(), k, stranded);
    let mut found = 0;
    let mut absent = 0;
    for (i, q) in queries.iter().enumerate() {
        for side in [L, R] {
            let allowed = ti.links(q, side);
            let got = snap.links[2 * i + side as usize];
            let ok = match got {
                None => allowed.is_empty(),
                Some(e) => allowed.contains(&e),
            };
            ensure!(
                ok,
                "find_link({}, side {}) = {:?}, but by the node sequences the admissible answers are {:?}",
                ascii(q),
                side,
                got,
                allowed
            );
            if allowed.is_empty() {
                absent += 1;
            } else {
                found += 1;
            }
        }
    }
    Ok((found, absent))
}

fn interleaving_signature() -> (u64, usize, u64) {
    let n = LOG_IDX.load(Ordering::SeqCst).min(256);
    let mut h = H::new();
    for i in 0..n {
        h.u(log()[i].load(Ordering::Relaxed) as u64);
    }
    let threads = seen().iter().filter(|s| s.load(Ordering::Relaxed)).count();
    (h.get(), threads, HASH_CALLS.load(Ordering::SeqCst))
}

pub struct C19Stats {
    pub signatures: std::sync::Mutex<HashSet<u64>>,
    pub max_threads: AtomicUsize,
}

fn run_base<K: Kmer + Send + Sync>(
    c: &mut Case,
    base: &BaseGraph<SpyK<K>, u32>,
    pools: &[usize],
    reps: usize,
    stats: &C19Stats,
    max_query_nodes: usize,
) -> Result<(), String> {
    let k = K::k();
    let seqs: Vec<S> = (0..base.len()).map(|i| base.sequences.get(i).bytes()).collect();
    let queries = make_queries(c, &seqs, k, max_query_nodes);
    DELAY_MASK.store(0, Ordering::SeqCst);
    let serial = base.clone().finish_serial();
    let s0 = snapshot(&serial, &queries);
    let (found, absent) = check_against_index(&s0, &queries, k, base.stranded).map_err(|e| format!("finish_serial: {}", e))?;
    c.count("queries_found", found);
    c.count("queries_absent", absent);
    for &t in pools {
        for rep in 0..reps {
            let delay = c.rng.chance(1, 2) && base.len() <= 20_000;
            DELAY_MASK.store(if delay { (1u64 << c.rng.range(3, 8)) - 1 } else { 0 }, Ordering::SeqCst);
            DELAY_SEED.store(c.rng.next(), Ordering::SeqCst);
            let noise = c.rng.chance(1, 4) && !c.lane_miri;
            let stop = AtomicBool::new(false);
            log_reset();
            let g = std::thread::scope(|sc| {
                if noise {
                    for _ in 0..8 {
                        sc.spawn(|| {
                            let mut x = 0u64;
                            while !stop.load(Ordering::Relaxed) {
                                x = x.wrapping_mul(6364136223846793005).wrapping_add(1);
                                std::hint::black_box(x);
                            }
                        });
                    }
                }
                let pool = rayon::ThreadPoolBuilder::new().num_threads(t).build().expect("rayon pool");
                let b2 = base.clone();
                let g = pool.install(move || b2.finish());
                stop.store(true, Ordering::SeqCst);
                g
            });
            DELAY_MASK.store(0, Ordering::SeqCst);
            let (sig, threads, calls) = interleaving_signature();
            stats.signatures.lock().unwrap().insert(sig);
            stats.max_threads.fetch_max(threads, Ordering::SeqCst);
            c.count("hash_calls_observed_in_parallel_builds", calls);
            c.count("parallel_builds", 1);
            c.count("parallel_builds_with_injected_delays", delay as u64);
            c.count("parallel_builds_with_noise_threads", noise as u64);
            if threads >= 2 {
                c.hit("parallel_builds_hashing_on_2plus_threads");
            }
            let sp = snapshot(&g, &queries);
            compare(&s0, &sp, &queries, &format!("finish() on a {}-thread pool (rep {}, {} nodes) vs finish_serial()", t, rep, base.len()))?;
        }
    }
    if c.lane_miri {
        return Ok(());
    }
    // global pool as well (what an ordinary caller gets)
    log_reset();
    let g = base.clone().finish();
    let sp = snapshot(&g, &queries);
    compare(&s0, &sp, &queries, "finish() on the global pool vs finish_serial()")?;
    c.count("parallel_builds", 1);
    Ok(())
}

fn c19_reads<K: Kmer + Send + Sync>(c: &mut Case, stats: &C19Stats) -> Result<(), String> {
    let gc = gen_gcase(c);
    // build through the real pipeline, then re-wrap node sequences into a SpyK graph
    let k = K::k();
    let seqs = whole_reads(&gc.reads);
    let input: Vec<(DnaString, Exts, u32)> = dna_seqs(&seqs);
    let (mut rows, _) = lib_filter_spy::<K, DnaString>(&input, gc.stranded, gc.thr, false);
    remove_censored_exts(gc.stranded, &mut rows);
    let bg = compress_kmers(gc.stranded, &SpySpec::new(false), &rows);
    let mut base: BaseGraph<SpyK<K>, u32> = BaseGraph::new(gc.stranded);
    for i in 0..bg.len() {
        base.add(bg.sequences.get(i).bytes(), bg.exts[i], i as u32);
    }
    let _ = k;
    run_base::<K>(c, &base, &[1, 2, 4], 1, stats, usize::MAX)?;
    c.count("graphs_from_reads", 1);
    c.count("nodes", base.len() as u64);
    if base.len() > 1 {
        c.nontrivial(gc.hash());
    }
    c.sample(|| gc.json());
    Ok(())
}

fn c19_synthetic(c: &mut Case, n_nodes: usize, pools: &[usize], reps: usize, stats: &C19Stats) -> Result<(), String> {
    type K = Kmer32;
    let k = 32;
    let stranded = c.rng.chance(1, 2);
    let mut base: BaseGraph<SpyK<K>, u32> = BaseGraph::new(stranded);
    let mut terms: HashSet<S> = HashSet::new();
    let mut added = 0u32;
    while (added as usize) < n_nodes {
        let len = k + *c.rng.pick(&[0usize, 0, 1, 3, 10, 40]);
        let s = c.rng.bases(len, 4);
        let f = s[..k].to_vec();
        let l = s[len - k..].to_vec();
        let keys = [f.clone(), l.clone(), rc(&f), rc(&l)];
        if keys.iter().any(|x| terms.contains(x)) {
            continue;
        }
        for x in keys {
            terms.insert(x);
        }
        // link to a random earlier node sometimes, so that edges exist
        let e = (c.rng.next() & 0xff) as u8;
        base.add(&s, Exts::new(e), added);
        added += 1;
    }
    run_base::<K>(c, &base, pools, reps, stats, 20_000)?;
    c.count("synthetic_graphs", 1);
    c.count("nodes", n_nodes as u64);
    c.count("graphs_with_100k_or_more_nodes", (n_nodes >= 100_000) as u64);
    c.nontrivial(H::new().u(n_nodes as u64).u(c.idx).u(stranded as u64).get());
    c.sample(|| json!({"synthetic_nodes": n_nodes, "stranded": stranded, "pools": pools}));
    Ok(())
}

/// many finish() calls on one graph above boomphf's / any caller-side parallel-split thresholds, from
/// several concurrent callers and pool sizes: a schedule-dependent mis-pairing that shows in ~1 % of
/// builds needs hundreds of builds to be observed
fn c19_repeat(c: &mut Case, n_nodes: usize, rounds: usize, stats: &C19Stats) -> Result<(), String> {
    type K = Kmer32;
    let k = 32;
    let mut base: BaseGraph<SpyK<K>, u32> = BaseGraph::new(true);
    let mut terms: HashSet<S> = HashSet::new();
    let mut added = 0u32;
    while (added as usize) < n_nodes {
        let len = k + *c.rng.pick(&[0usize, 1, 2]);
        let s = c.rng.bases(len, 4);
        let f = s[..k].to_vec();
        let l = s[len - k..].to_vec();
        if terms.contains(&f) || terms.contains(&l) {
            continue;
        }
        terms.insert(f);
        terms.insert(l);
        base.add(&s, Exts::new(0), added);
        added += 1;
    }
    let seqs: Vec<S> = (0..base.len()).map(|i| base.sequences.get(i).bytes()).collect();
    // queries: terminal k-mers of a sample of nodes (expected answer known from construction)
    let sample: Vec<usize> = (0..3000).map(|_| c.rng.below(n_nodes)).collect();
    DELAY_MASK.store(0, Ordering::SeqCst);
    let mut bad: Option<String> = None;
    for round in 0..rounds {
        let callers = c.rng.range(1, 4);
        let t = *c.rng.pick(&[2usize, 3, 4, 8, 16]);
        log_reset();
        let results: Vec<DebruijnGraph<SpyK<K>, u32>> = std::thread::scope(|sc| {
            let hs: Vec<_> = (0..callers)
                .map(|_| {
                    let b2 = base.clone();
                    sc.spawn(move || {
                        let pool = rayon::ThreadPoolBuilder::new().num_threads(t).build().expect("rayon pool");
                        pool.install(move || b2.finish())
                    })
                })
                .collect();
            hs.into_iter().map(|h| h.join().expect("finish() panicked")).collect()
        });
        let (sig, threads, calls) = interleaving_signature();
        stats.signatures.lock().unwrap().insert(sig);
        stats.max_threads.fetch_max(threads, Ordering::SeqCst);
        c.count("hash_calls_observed_in_parallel_builds", calls);
        for g in &results {
            c.count("parallel_builds", 1);
            c.count("repeated_builds_of_one_large_graph", 1);
            for &i in &sample {
                let s = &seqs[i];
                // stranded graph: the first k-mer of node i is found going Right, the last going Left
                let a = norm(g.find_link(SpyK(kfrom::<K>(&s[..k])), Dir::Right));
                let b = norm(g.find_link(SpyK(kfrom::<K>(&s[s.len() - k..])), Dir::Left));
                if a != Some((i, L, false)) || b != Some((i, R, false)) {
                    bad = Some(format!(
                        "round {} ({} concurrent callers, {}-thread pools, {} nodes): find_link for the terminal k-mers of node {} = {:?} / {:?}, expected node {} on both",
                        round, callers, t, n_nodes, i, a, b, i
                    ));
                    break;
                }
            }
            if bad.is_some() {
                break;
            }
        }
        if let Some(m) = bad {
            return Err(m);
        }
    }
    c.nontrivial(H::new().u(n_nodes as u64).u(rounds as u64).u(c.idx).get());
    Ok(())
}

pub const RULE_C19: &str = "case = BaseGraph (from a hostile read set through filter/prune/compress, or synthetic: N random node sequences over Kmer32 with pairwise distinct terminal k-mers, N from 0 to >= 10^5) whose k-mer type is a spy newtype (Hash logs the calling thread and optionally spins 0-40us); finish() is run inside rayon pools of 1,2,3,4,7,8,15,16 threads (and the global pool), with and without injected delays and busy noise threads, and every answer (find_link for terminal k-mers, their reverse complements, one-base variants, internal k-mers and random k-mers in both directions; edge lists of all nodes; node ids, order, sequences, extensions, payloads) is compared with finish_serial() on a clone and with a terminal index built from the node sequences; distinct = hash(read set) / (N, case); non-trivial = more than one node";

pub fn run_c19(ctx: &Ctx, sizes_override: Option<Vec<usize>>) -> serde_json::Value {
    let stats = C19Stats {
        signatures: std::sync::Mutex::new(HashSet::new()),
        max_threads: AtomicUsize::new(0),
    };
    let st = &stats;
    // small graphs from reads: one driver thread (the spy log is process-global)
    let n = if ctx.is_miri() { 0 } else { ctx.n(300, 20_000) };
    ctx.run_group_t("from_reads", n, false, 1, |c| match c.rng.below(4) {
        0 => c19_reads::<Kmer4>(c, st),
        1 => c19_reads::<Kmer6>(c, st),
        2 => c19_reads::<Kmer15>(c, st),
        _ => c19_reads::<Kmer32>(c, st),
    });
    let nh = if ctx.is_miri() { 0 } else { ctx.n(5_000, 200_000) };
    ctx.run_group("handbuilt_small", nh, false, |c| {
        let par = c.rng.chance(1, 2);
        let r = match c.rng.below(3) {
            0 => check_handbuilt::<Kmer4>(&c.rng, par),
            1 => check_handbuilt::<Kmer5>(&c.rng, par),
            _ => check_handbuilt::<Kmer6>(&c.rng, par),
        };
        let (q, a, p) = r?;
        c.count("handbuilt_graphs", 1);
        c.count("queries_found", q - a);
        c.count("queries_absent", a);
        c.count("handbuilt_palindromic_terminal_kmers", p);
        c.nontrivial(H::new().u(c.idx).u(q).u(7).get());
        Ok(())
    });
    ctx.set_case_timeout(900);
    let sizes: Vec<usize> = match sizes_override {
        Some(v) => v,
        None => {
            if ctx.lane == "tsan" {
                // ThreadSanitizer costs ~10x: smaller graphs, still above every parallel-split threshold
                if ctx.tier == Tier::Thorough { vec![0, 1, 5, 1000, 4_100, 20_011, 70_001, 120_013] } else { vec![0, 1, 5, 1000, 4_100, 20_011, 70_001] }
            } else if ctx.is_miri() {
                vec![6]
            } else if ctx.tier == Tier::Thorough {
                vec![0, 1, 2, 5, 50, 1000, 4_100, 20_011, 100_003, 150_001, 500_009, 2_000_003]
            } else {
                // deliberately not round numbers: block-split arithmetic is exercised with remainders
                vec![0, 1, 2, 5, 50, 1000, 4_100, 20_011, 120_013, 200_003]
            }
        }
    };
    let thorough = ctx.tier == Tier::Thorough;
    let tsan = ctx.lane == "tsan";
    let szs = sizes.clone();
    ctx.run_group_t("synthetic", sizes.len() as u64, false, 1, move |c| {
        let n_nodes = szs[c.idx as usize];
        let pools: Vec<usize> = if c.lane_miri {
            vec![3]
        } else if tsan && n_nodes >= 20_000 {
            vec![2, 4, 16]
        } else if n_nodes >= 500_000 {
            vec![1, 4, 16]
        } else if n_nodes >= 100_000 {
            if thorough { vec![1, 2, 3, 4, 7, 8, 15, 16] } else { vec![1, 2, 4, 8, 16] }
        } else {
            vec![1, 2, 3, 4, 7, 8, 15, 16]
        };
        let reps = if c.lane_miri || tsan { 1 } else if n_nodes >= 100_000 { if thorough { 3 } else { 1 } } else { 2 };
        c19_synthetic(c, n_nodes, &pools, reps, st)
    });
    if !ctx.is_miri() {
        // 8 rounds (1-3 concurrent finish() calls each) per case, so that a case stays well inside the watchdog
        let (nodes, cases) = if ctx.lane == "tsan" { (70_000, 1) } else { (70_000, ctx.n(15, 150)) };
        ctx.run_group_t("repeat_large", cases, false, 1, |c| c19_repeat(c, nodes, 8, st));
    }
    let nsig = stats.signatures.lock().unwrap().len();
    let maxt = stats.max_threads.load(Ordering::SeqCst);
    ctx.add_count("distinct_interleaving_signatures", nsig as u64);
    ctx.add_count("max_threads_seen_hashing_in_one_build", maxt as u64);
    if !ctx.is_miri() && ctx.lane != "tsan" {
        ctx.require("parallel_builds_hashing_on_2plus_threads", 5);
        ctx.require("distinct_interleaving_signatures", 5);
        ctx.require("graphs_with_100k_or_more_nodes", 1);
        ctx.require("queries_absent", 1000);
    }
    json!({"distinct_interleaving_signatures": nsig, "max_threads_seen_hashing_in_one_build": maxt})
}
