//! Monitors for the graph-construction properties C01, C02, C03, C04, C06, C09.

use crate::gen::gen_reads;
use crate::gor::*;
use crate::ktypes::*;
use crate::model::*;
use crate::runner::{Case, Ctx};
use crate::util::{ascii, fnv, H};
use crate::{ensure, with_graph_k};
use bit_set::BitSet;
use boomphf::hashmap::BoomHashMap2;
use debruijn::clean_graph::CleanGraph;
use debruijn::compression::{
    compress_graph, compress_kmers, compress_kmers_no_exts, compress_kmers_with_hash, ScmapCompress,
};
use debruijn::dna_string::DnaString;
use debruijn::filter::{filter_kmers, remove_censored_exts, remove_censored_exts_sharded};
use debruijn::graph::{BaseGraph, DebruijnGraph};
use debruijn::msp::msp_sequence;
use debruijn::vmer::{Lmer1, Lmer2, Lmer3};
use debruijn::{Dir, DnaBytes, Exts, Kmer, Vmer};
use serde_json::json;
use std::collections::{BTreeMap, BTreeSet};

pub struct GCase {
    pub kidx: usize,
    pub stranded: bool,
    pub thr: usize,
    pub reads: Vec<S>,
    pub by_colour: bool,
    pub ncol: u64,
    pub salt: u64,
}

pub fn gen_gcase(c: &mut Case) -> GCase {
    let kidx = if c.lane_miri {
        *c.rng.pick(&[0usize, 1, 2, 3, 5])
    } else {
        pick_graph_k(&c.rng)
    };
    let k = GRAPH_K_VALUES[kidx];
    let reads = gen_reads(&c.rng, k);
    GCase {
        kidx,
        stranded: c.rng.chance(1, 2),
        thr: *c.rng.pick(&[1usize, 1, 1, 2, 2, 3]),
        reads,
        by_colour: c.rng.chance(1, 2),
        ncol: c.rng.range(2, 3) as u64,
        salt: c.rng.next(),
    }
}

impl GCase {
    pub fn json(&self) -> serde_json::Value {
        json!({
            "K": GRAPH_K_NAMES[self.kidx],
            "stranded": self.stranded,
            "threshold": self.thr,
            "join_by_colour": self.by_colour,
            "reads": self.reads.iter().map(|r| ascii(r)).collect::<Vec<_>>(),
        })
    }
    pub fn hash(&self) -> u64 {
        let mut h = H::new();
        h.u(self.kidx as u64).u(self.stranded as u64).u(self.thr as u64);
        for r in &self.reads {
            h.b(r);
        }
        h.get()
    }
    fn colour(&self, key: &[u8]) -> u8 {
        ((fnv(key) ^ self.salt) % self.ncol) as u8
    }
}

/// Retained table (keys with >= thr observations), ids in key order
fn retained_table(gc: &GCase, t: &Table) -> BTreeMap<S, KeyInfo> {
    let mut out = BTreeMap::new();
    let mut id = 0u32;
    for (key, row) in t {
        if row.obs.len() >= gc.thr {
            out.insert(
                key.clone(),
                KeyInfo {
                    mask: row.mask,
                    id,
                    colour: gc.colour(key),
                },
            );
            id += 1;
        }
    }
    out
}

fn masks(t: &BTreeMap<S, KeyInfo>) -> BTreeMap<S, u8> {
    t.iter().map(|(k, v)| (k.clone(), v.mask)).collect()
}

fn with_masks(t: &BTreeMap<S, KeyInfo>, m: &BTreeMap<S, u8>) -> BTreeMap<S, KeyInfo> {
    t.iter()
        .map(|(k, v)| {
            (
                k.clone(),
                KeyInfo {
                    mask: m[k],
                    id: v.id,
                    colour: v.colour,
                },
            )
        })
        .collect()
}

fn lib_rows<K: Kmer>(t: &BTreeMap<S, KeyInfo>) -> Vec<(K, (Exts, Pay))> {
    t.iter()
        .map(|(k, v)| {
            (
                kfrom::<K>(k),
                (
                    Exts::new(v.mask),
                    Pay {
                        colour: v.colour,
                        ids: vec![v.id],
                    },
                ),
            )
        })
        .collect()
}

/// features of a table that make a case "hostile"
struct Feat {
    pal: u64,
    repeated: u64,
    rejected: u64,
    branch: u64,
}

fn features(gc: &GCase, t: &Table, rows: &BTreeMap<S, u8>) -> Feat {
    let mut f = Feat {
        pal: 0,
        repeated: 0,
        rejected: 0,
        branch: 0,
    };
    for (key, row) in t {
        if row.obs.len() < gc.thr {
            f.rejected += 1;
        } else {
            if is_pal(key, gc.stranded) {
                f.pal += 1;
            }
            if row.obs.len() > 1 {
                f.repeated += 1;
            }
        }
    }
    for m in rows.values() {
        if side_bits(*m, L).count_ones() > 1 || side_bits(*m, R).count_ones() > 1 {
            f.branch += 1;
        }
    }
    f
}

#[derive(Clone, Copy, PartialEq)]
enum Which {
    Lossless,
    Maximal,
}

fn compress_case<K: Kmer + Send + Sync>(c: &mut Case, gc: &GCase, which: Which) -> Result<(), String> {
    let k = K::k();
    let stranded = gc.stranded;
    let seqs = whole_reads(&gc.reads);
    let t = build_table(&seqs, k, stranded);
    let unpruned = retained_table(gc, &t);
    let pruned_masks = prune_table(&masks(&unpruned), stranded);
    let pruned = with_masks(&unpruned, &pruned_masks);
    // presence table for the no-exts entry point
    let presence_masks: BTreeMap<S, u8> = pruned
        .keys()
        .map(|key| {
            (
                key.clone(),
                prune_mask(key, 0xff, stranded, |x| pruned.contains_key(x)),
            )
        })
        .collect();
    let presence = with_masks(&pruned, &presence_masks);
    let feat = features(gc, &t, &pruned_masks);
    let by_colour = gc.by_colour;
    let colour_of: BTreeMap<S, u8> = pruned.iter().map(|(k, v)| (k.clone(), v.colour)).collect();
    let join = |a: &S, b: &S| !by_colour || colour_of[a] == colour_of[b];

    let mut merged_any = false;
    let spec = SpySpec::new(by_colour);

    // (table, has dangling extensions, entry points)
    let dangling = unpruned.iter().any(|(k, v)| v.mask != pruned[k].mask);
    if dangling {
        c.hit("tables_with_dangling_extensions");
    }
    let tables: Vec<(&BTreeMap<S, KeyInfo>, bool)> = if which == Which::Lossless && dangling {
        vec![(&unpruned, true), (&pruned, false)]
    } else {
        vec![(&pruned, false)]
    };
    for (tab, is_dangling) in tables {
        if tab.is_empty() {
            c.hit("empty_tables");
        }
        let rows: Vec<(K, (Exts, Pay))> = lib_rows::<K>(tab);
        for entry in 0..2 {
            spec.reset();
            let bg: BaseGraph<K, Pay> = if entry == 0 {
                compress_kmers(stranded, &spec, &rows)
            } else {
                let keys: Vec<K> = rows.iter().map(|r| r.0).collect();
                let exts: Vec<Exts> = rows.iter().map(|r| (r.1).0).collect();
                let data: Vec<Pay> = rows.iter().map(|r| (r.1).1.clone()).collect();
                let index = BoomHashMap2::new(keys, exts, data);
                compress_kmers_with_hash(stranded, &spec, &index)
            };
            ensure!(bg.stranded == stranded, "BaseGraph.stranded flag lost");
            let nodes = views(&bg);
            c.count("graphs_built", 1);
            let label = if entry == 0 { "compress_kmers" } else { "compress_kmers_with_hash" };
            match which {
                Which::Lossless => {
                    let st = check_lossless(&nodes, tab, k, stranded, false, Some(spec.log.borrow().reduces))
                        .map_err(|e| format!("{} (dangling={}): {}", label, is_dangling, e))?;
                    c.count("nodes", st.nodes);
                    c.count("merged_nodes", st.merged_nodes);
                    c.count("kmers_placed", st.keys);
                    c.count("steps_checked", st.steps);
                    merged_any |= st.merged_nodes > 0;
                }
                Which::Maximal => {
                    check_maximal(&nodes, &pruned_masks, k, stranded, &join)
                        .map_err(|e| format!("{}: {}", label, e))?;
                    check_join_log(&nodes, &spec.log.borrow()).map_err(|e| format!("{}: {}", label, e))?;
                    c.count("nodes", nodes.len() as u64);
                    c.count("join_tests_logged", spec.log.borrow().joins.len() as u64);
                    c.count(
                        "join_tests_refused",
                        spec.log.borrow().joins.iter().filter(|j| !j.2).count() as u64,
                    );
                    merged_any |= nodes.iter().any(|n| n.seq.len() > k);
                }
            }
        }
    }
    // no-exts entry point
    {
        spec.reset();
        let kd: Vec<(K, Pay)> = lib_rows::<K>(&pruned).into_iter().map(|(k, (_, d))| (k, d)).collect();
        let bg = compress_kmers_no_exts(stranded, &spec, &kd);
        let nodes = views(&bg);
        c.count("graphs_built", 1);
        match which {
            Which::Lossless => {
                check_lossless(&nodes, &presence, k, stranded, true, Some(spec.log.borrow().reduces))
                    .map_err(|e| format!("compress_kmers_no_exts: {}", e))?;
            }
            Which::Maximal => {
                check_maximal(&nodes, &presence_masks, k, stranded, &join)
                    .map_err(|e| format!("compress_kmers_no_exts: {}", e))?;
                check_join_log(&nodes, &spec.log.borrow())
                    .map_err(|e| format!("compress_kmers_no_exts: {}", e))?;
            }
        }
    }
    // node-level compressor on the one-k-mer-per-node graph: same partition expected
    if which == Which::Maximal {
        let mut b1: BaseGraph<K, Pay> = BaseGraph::new(stranded);
        for (key, v) in &pruned {
            b1.add(
                key.clone(),
                Exts::new(v.mask),
                Pay {
                    colour: v.colour,
                    ids: vec![v.id],
                },
            );
        }
        spec.reset();
        let gq = compress_graph(stranded, &spec, b1.finish(), None);
        let nodes = views(&gq.base);
        check_maximal(&nodes, &pruned_masks, k, stranded, &join)
            .map_err(|e| format!("compress_graph on the one-k-mer-per-node graph: {}", e))?;
        check_join_log(&nodes, &spec.log.borrow())
            .map_err(|e| format!("compress_graph on the one-k-mer-per-node graph: {}", e))?;
        c.count("graphs_built", 1);
        // the very graph object just returned, compressed again under the OTHER predicate: the result
        // must follow that predicate (colours of merged nodes are uniform, so the relation is defined)
        if by_colour {
            let g3 = compress_graph(stranded, &SpySpec::new(false), gq, None);
            let nodes3 = views(&g3.base);
            check_maximal(&nodes3, &pruned_masks, k, stranded, &|_: &S, _: &S| true)
                .map_err(|e| format!("graph returned by compress_graph(colour predicate) compressed again with the always-true predicate: {}", e))?;
            c.count("same_object_predicate_switches", 1);
        }
    }
    // the library's own colour predicate (ScmapCompress): payload = colour
    if which == Which::Maximal {
        let rows: Vec<(K, (Exts, u8))> = pruned
            .iter()
            .map(|(key, v)| (kfrom::<K>(key), (Exts::new(v.mask), v.colour)))
            .collect();
        let bg = compress_kmers(stranded, &ScmapCompress::<u8>::new(), &rows);
        let nodes = views(&bg);
        let cj = |a: &S, b: &S| colour_of[a] == colour_of[b];
        check_maximal(&nodes, &pruned_masks, k, stranded, &cj)
            .map_err(|e| format!("compress_kmers + ScmapCompress: {}", e))?;
        for n in &nodes {
            for w in n.seq.windows(k) {
                ensure!(
                    colour_of[&canon_s(w, stranded)] == n.data,
                    "ScmapCompress node payload {} is not the colour of its k-mer {}",
                    n.data,
                    ascii(w)
                );
            }
        }
        c.count("scmap_graphs", 1);
    }

    c.count("cases_with_palindromes", (feat.pal > 0) as u64);
    c.count("cases_with_repeated_kmers", (feat.repeated > 0) as u64);
    c.count("cases_with_rejected_kmers", (feat.rejected > 0) as u64);
    c.count("cases_with_branches", (feat.branch > 0) as u64);
    c.count("cases_stranded", stranded as u64);
    if merged_any && (feat.pal + feat.repeated + feat.rejected + feat.branch > 0) {
        c.nontrivial(gc.hash());
    }
    c.sample(|| gc.json());
    Ok(())
}

pub const RULE_GRAPH: &str = "case = seeded hostile read set (1-8 reads from: random over 1-4 letter alphabets, copies, reverse complements, sub-reads, tandem repeats with unit <= K, hairpins, palindromic repeats, homopolymers, SNP variants, too-short and empty reads) x K type (17 types, K=4..64, small K weighted 70%) x stranded x threshold 1-3 x join predicate; distinct = hash of (K, stranded, threshold, reads); non-trivial = at least one merged node AND at least one of: palindromic key, repeated k-mer, threshold-rejected k-mer, branching k-mer";

/// large-scale read sets: a random genome with planted (reverse-complemented) repeats, tiled by
/// overlapping reads on both strands, K = 20..32
pub fn gen_large_gcase(c: &mut Case) -> GCase {
    let kidx = *c.rng.pick(&[9usize, 10, 12, 13]);
    // half of the cases exceed 65 536 distinct k-mers / nodes-before-compression (16-bit thresholds)
    let glen = if c.rng.chance(1, 2) { 20_000 + c.rng.below(40_000) } else { 70_000 + c.rng.below(90_000) };
    // a third of the cases: no planted repeats and the genome given as ONE read, so that a single
    // unbranched line holds > 65 536 k-mers
    let single_line = c.rng.chance(1, 3);
    let genome = crate::gen::gen_genome(&c.rng, if single_line { glen.max(140_000) } else { glen }, if single_line { 0 } else { 30 }, 50);
    let mut reads = Vec::new();
    let mut pos = 0;
    if single_line {
        reads.push(genome.clone());
        pos = genome.len();
    }
    while pos + 40 < genome.len() {
        let len = 60 + c.rng.below(200);
        let end = (pos + len).min(genome.len());
        let r = genome[pos..end].to_vec();
        reads.push(if c.rng.chance(1, 2) { rc(&r) } else { r });
        pos += 10 + c.rng.below(80);
    }
    GCase {
        kidx,
        stranded: c.rng.chance(1, 3),
        thr: if single_line { 1 } else { c.rng.range(1, 3) },
        reads,
        by_colour: c.rng.chance(1, 2) && !single_line,
        ncol: 3,
        salt: c.rng.next(),
    }
}

/// call sequences on ONE thread: a large table, then N tiny tables (N around 2^8 and 2^16), then a
/// larger table. Per-call state that survives between calls (generation counters, reused marks or
/// scratch buffers) shows up as lost / duplicated k-mers in the last call.
fn c01_call_sequence(c: &mut Case) -> Result<(), String> {
    type K = Kmer16;
    let k = 16;
    let stranded = c.rng.chance(1, 2);
    let n_mid = *c.rng.pick(&[254usize, 255, 256, 257, 65_534, 65_535, 65_536, 65_537, 70_000]);
    let spec = SpySpec::new(false);
    let gc = GCase { kidx: 8, stranded, thr: 1, reads: vec![], by_colour: false, ncol: 2, salt: c.rng.next() };
    let mut run_big = |c: &mut Case, len: usize, entry: usize| -> Result<(), String> {
        let read = c.rng.bases(len, 4);
        let t = build_table(&whole_reads(&[read]), k, stranded);
        let tab = retained_table(&gc, &t);
        let pruned = with_masks(&tab, &prune_table(&masks(&tab), stranded));
        spec.reset();
        let nodes = match entry {
            0 => views(&compress_kmers(stranded, &spec, &lib_rows::<K>(&pruned))),
            1 => {
                let rows = lib_rows::<K>(&pruned);
                let index = BoomHashMap2::new(rows.iter().map(|r| r.0).collect(), rows.iter().map(|r| (r.1).0).collect(), rows.iter().map(|r| (r.1).1.clone()).collect());
                views(&compress_kmers_with_hash(stranded, &spec, &index))
            }
            _ => {
                let kd: Vec<(K, Pay)> = lib_rows::<K>(&pruned).into_iter().map(|(k, (_, d))| (k, d)).collect();
                views(&compress_kmers_no_exts(stranded, &spec, &kd))
            }
        };
        check_lossless(&nodes, &pruned, k, stranded, entry == 2, Some(spec.log.borrow().reduces)).map(|_| ())
    };
    let entry = c.rng.below(3);
    let l1 = c.rng.range(1500, 4000);
    run_big(c, l1, entry).map_err(|e| format!("first large table ({} bases): {}", l1, e))?;
    for _ in 0..n_mid {
        // tiny tables: one isolated k-mer, or two adjacent ones
        let read = c.rng.bases(k + c.rng.below(2), 4);
        let t = build_table(&whole_reads(&[read]), k, stranded);
        let tab = retained_table(&gc, &t);
        let rows = lib_rows::<K>(&tab);
        let bg = compress_kmers(stranded, &spec, &rows);
        ensure!(bg.len() >= 1, "tiny table compressed to an empty graph");
    }
    let l2 = l1 + c.rng.range(500, 3000);
    run_big(c, l2, entry).map_err(|e| format!("large table ({} bases) after a {}-base table and {} tiny tables on the same thread: {}", l2, l1, n_mid, e))?;
    c.count("call_sequences", 1);
    c.count("call_sequences_with_65535_or_more_intermediate_calls", (n_mid >= 65_535) as u64);
    c.nontrivial(H::new().u(n_mid as u64).u(l1 as u64).u(l2 as u64).get());
    Ok(())
}

pub fn run_c01(ctx: &Ctx) {
    // > 65 536 compress calls per worker thread in the quick tier (state carried from call to call)
    let n = ctx.n(300_000, 6_000_000);
    ctx.run_group("compress", n, false, |c| {
        let gc = gen_gcase(c);
        with_graph_k!(gc.kidx, K => compress_case::<K>(c, &gc, Which::Lossless))
    });
    if !ctx.is_miri() && ctx.lane != "asan" {
        ctx.set_case_timeout(600);
        ctx.run_group("compress_large", ctx.n(6, 200), false, |c| {
            let gc = gen_large_gcase(c);
            c.count("large_cases", 1);
            with_graph_k!(gc.kidx, K => compress_case::<K>(c, &gc, Which::Lossless))
        });
    }
    if !ctx.is_miri() && ctx.lane != "asan" {
        ctx.set_case_timeout(300);
        ctx.run_group("call_sequences", ctx.n(48, 600), false, |c| c01_call_sequence(c));
        ctx.require("call_sequences_with_65535_or_more_intermediate_calls", 10);
    }
    if !ctx.is_miri() {
        ctx.require("merged_nodes", 100);
        ctx.require("cases_with_palindromes", 10);
        ctx.require("tables_with_dangling_extensions", 10);
        ctx.require("cases_stranded", 10);
    }
}

pub fn run_c02(ctx: &Ctx) {
    let n = ctx.n(60_000, 3_000_000);
    ctx.run_group("maximal", n, false, |c| {
        let gc = gen_gcase(c);
        with_graph_k!(gc.kidx, K => compress_case::<K>(c, &gc, Which::Maximal))
    });
    if !ctx.is_miri() && ctx.lane != "asan" {
        ctx.set_case_timeout(600);
        ctx.run_group("maximal_large", ctx.n(4, 200), false, |c| {
            let gc = gen_large_gcase(c);
            c.count("large_cases", 1);
            with_graph_k!(gc.kidx, K => compress_case::<K>(c, &gc, Which::Maximal))
        });
    }
    if !ctx.is_miri() {
        ctx.require("join_tests_logged", 100);
        ctx.require("join_tests_refused", 10);
        ctx.require("cases_with_palindromes", 10);
        ctx.require("cases_with_branches", 10);
    }
}

// ---------------------------------------------------------------------------------------------
// library pipelines shared by C03 / C04 / C06 / C09
// ---------------------------------------------------------------------------------------------

/// rows of the library's filter (spy summarizer): key -> (mask, labels of observations)
pub type LibRows<K> = Vec<(K, (Exts, Pay))>;

fn pay_of_obs(obs: &[(u32, u8)]) -> Pay {
    Pay {
        colour: 0,
        ids: obs.iter().map(|o| o.0).collect(),
    }
}

pub fn lib_filter_spy<K: Kmer, V: Vmer>(
    input: &[(V, Exts, u32)],
    stranded: bool,
    thr: usize,
    report_all: bool,
) -> (LibRows<K>, Vec<K>) {
    let (idx, all): (BoomHashMap2<K, Exts, Vec<(u32, u8)>>, Vec<K>) = filter_kmers(
        input,
        &Box::new(SpySummarizer::new(thr)),
        stranded,
        report_all,
        1,
    );
    let mut v: LibRows<K> = idx
        .iter()
        .map(|(k, e, d)| (*k, (*e, pay_of_obs(d))))
        .collect();
    v.sort_by_key(|x| x.0);
    (v, all)
}

/// direct pipeline: filter -> prune -> compress_kmers -> finish
pub fn lib_direct<K: Kmer + Send + Sync>(
    seqs: &[Seq],
    stranded: bool,
    thr: usize,
) -> (DebruijnGraph<K, Pay>, LibRows<K>) {
    let input = dna_seqs(seqs);
    let (mut rows, _) = lib_filter_spy::<K, DnaString>(&input, stranded, thr, false);
    remove_censored_exts(stranded, &mut rows);
    let spec = SpySpec::new(false);
    let bg = compress_kmers(stranded, &spec, &rows);
    (bg.finish(), rows)
}

pub fn pay_views<K: Kmer>(g: &DebruijnGraph<K, Pay>) -> Vec<NodeView<Vec<u32>>> {
    views(&g.base)
        .into_iter()
        .map(|n| NodeView {
            seq: n.seq,
            exts: n.exts,
            data: n.data.ids,
        })
        .collect()
}

/// model of the final graph of a read set: partition, payload labels, adjacency
pub fn model_summary(seqs: &[Seq], k: usize, stranded: bool, thr: usize) -> GraphSummary {
    let t = build_table(seqs, k, stranded);
    let retained: BTreeMap<S, u8> = t
        .iter()
        .filter(|(_, r)| r.obs.len() >= thr)
        .map(|(k, r)| (k.clone(), r.mask))
        .collect();
    let pruned = prune_table(&retained, stranded);
    let part = partition(&pruned, stranded, |_, _| true);
    let mut payload = BTreeMap::new();
    for cls in &part {
        let mut labels: Vec<u32> = Vec::new();
        for key in cls {
            labels.extend(t[key].obs.iter().map(|o| seqs[o.read].label));
        }
        labels.sort();
        payload.insert(cls.iter().next().unwrap().clone(), labels);
    }
    let keys: BTreeSet<S> = retained.keys().cloned().collect();
    GraphSummary {
        partition: part,
        payload,
        adjacency: adjacency(seqs, k, stranded, &keys),
    }
}

// ---------------------------------------------------------------------------------------------
// C03
// ---------------------------------------------------------------------------------------------

fn all_kmers_of_len(k: usize) -> Vec<S> {
    let n = 1usize << (2 * k);
    (0..n)
        .map(|v| (0..k).map(|i| ((v >> (2 * (k - 1 - i))) & 3) as u8).collect())
        .collect()
}

fn c03_case<K: Kmer + Send + Sync>(c: &mut Case, gc: &GCase) -> Result<(), String> {
    let k = K::k();
    let stranded = gc.stranded;
    let seqs = whole_reads(&gc.reads);
    let t = build_table(&seqs, k, stranded);
    let retained: BTreeMap<S, u8> = t
        .iter()
        .filter(|(_, r)| r.obs.len() >= gc.thr)
        .map(|(k, r)| (k.clone(), r.mask))
        .collect();
    let keyset: BTreeSet<S> = retained.keys().cloned().collect();
    let model_pruned = prune_table(&retained, stranded);

    // --- pruning operations on the library's own table -------------------------------------
    let input = dna_seqs(&seqs);
    let (rows0, all) = lib_filter_spy::<K, DnaString>(&input, stranded, gc.thr, true);
    {
        let mut rows = rows0.clone();
        remove_censored_exts(stranded, &mut rows);
        for (key, (e, _)) in &rows {
            let ks = kstr(key);
            let exp = *model_pruned
                .get(&ks)
                .ok_or_else(|| format!("filter returned key {} that the model does not retain", ascii(&ks)))?;
            // the unpruned library mask may legitimately differ from the model's on palindromes;
            // prune the library's own mask with the model rule and compare exactly
            let lib_unpruned = rows0.iter().find(|r| r.0 == *key).unwrap().1 .0.val;
            let exp_exact = prune_mask(&ks, lib_unpruned, stranded, |x| keyset.contains(x));
            ensure!(
                e.val == exp_exact,
                "remove_censored_exts: key {} mask {:#04x} -> {:#04x}, expected {:#04x}",
                ascii(&ks),
                lib_unpruned,
                e.val,
                exp_exact
            );
            ensure!(
                masks_agree(&ks, stranded, exp, e.val),
                "pruned mask of {} is {:#04x}, model says {:#04x}",
                ascii(&ks),
                e.val,
                exp
            );
            c.count("pruned_masks_checked", 1);
        }
        ensure!(rows.len() == model_pruned.len(), "table size {} != model {}", rows.len(), model_pruned.len());
        // sharded variant with all_kmers: same result when every k-mer is in this shard
        let mut rows_s = rows0.clone();
        remove_censored_exts_sharded(stranded, &mut rows_s, &all);
        for (a, b) in rows.iter().zip(rows_s.iter()) {
            ensure!(
                a.0 == b.0 && (a.1).0 == (b.1).0,
                "remove_censored_exts_sharded (single shard) differs from remove_censored_exts at {}",
                ascii(&kstr(&a.0))
            );
        }
        // random censor subsets: drop random keys from `valid`, keep them in all_kmers
        for _ in 0..2 {
            if rows0.is_empty() {
                break;
            }
            let drop_p = c.rng.range(1, 4);
            let mut valid: LibRows<K> = Vec::new();
            let mut dropped: BTreeSet<S> = BTreeSet::new();
            for r in &rows0 {
                if c.rng.chance(drop_p, 5) {
                    dropped.insert(kstr(&r.0));
                } else {
                    valid.push(r.clone());
                }
            }
            // some k-mers are unknown to this shard entirely (neither valid nor in all_kmers)
            let mut all_sub: Vec<K> = Vec::new();
            let mut unknown: BTreeSet<S> = BTreeSet::new();
            for kk in &all {
                if c.rng.chance(1, 6) && !valid.iter().any(|r| r.0 == *kk) {
                    unknown.insert(kstr(kk));
                } else {
                    all_sub.push(*kk);
                }
            }
            let valid_set: BTreeSet<S> = valid.iter().map(|r| kstr(&r.0)).collect();
            let all_set: BTreeSet<S> = all_sub.iter().map(|x| kstr(x)).collect();
            let before: Vec<u8> = valid.iter().map(|r| (r.1).0.val).collect();
            let mut v1 = valid.clone();
            remove_censored_exts(stranded, &mut v1);
            let mut v2 = valid.clone();
            remove_censored_exts_sharded(stranded, &mut v2, &all_sub);
            for (i, r) in valid.iter().enumerate() {
                let ks = kstr(&r.0);
                let e1 = prune_mask(&ks, before[i], stranded, |x| valid_set.contains(x));
                let e2 = prune_mask(&ks, before[i], stranded, |x| {
                    valid_set.contains(x) || !all_set.contains(x)
                });
                ensure!(
                    (v1[i].1).0.val == e1,
                    "remove_censored_exts with censored subset: key {} got {:#04x} expected {:#04x}",
                    ascii(&ks),
                    (v1[i].1).0.val,
                    e1
                );
                ensure!(
                    (v2[i].1).0.val == e2,
                    "remove_censored_exts_sharded with censored subset: key {} got {:#04x} expected {:#04x} (before {:#04x})",
                    ascii(&ks),
                    (v2[i].1).0.val,
                    e2,
                    before[i]
                );
                c.count("censored_prunings_checked", 1);
                if e1 != e2 {
                    c.hit("sharded_pruning_kept_foreign_extension");
                }
            }
        }
    }

    // --- finished graph ----------------------------------------------------------------------
    let (g, _) = lib_direct::<K>(&seqs, stranded, gc.thr);
    let adj = adjacency(&seqs, k, stranded, &keyset);
    let mut st = check_edges(&g, Some(&adj), true)?;
    // the node k-mer set must be the retained set (needed for the adjacency comparison to mean anything)
    let node_keys: BTreeSet<S> = node_partition(&views(&g.base), k, stranded)
        .into_iter()
        .flatten()
        .collect();
    ensure!(node_keys == keyset, "graph k-mer set != retained k-mer set");

    // the README pipeline without pruning: extension bits towards rejected k-mers dangle; they must
    // simply not resolve, and everything that does resolve must still be exact
    {
        let keys: Vec<K> = rows0.iter().map(|r| r.0).collect();
        let exts: Vec<Exts> = rows0.iter().map(|r| (r.1).0).collect();
        let data: Vec<Pay> = rows0.iter().map(|r| (r.1).1.clone()).collect();
        let dangling_bits: u32 = rows0
            .iter()
            .map(|r| {
                let ks = kstr(&r.0);
                ((r.1).0.val ^ prune_mask(&ks, (r.1).0.val, stranded, |x| keyset.contains(x))).count_ones()
            })
            .sum();
        let index = BoomHashMap2::new(keys, exts, data);
        let gu = compress_kmers_with_hash(stranded, &SpySpec::new(false), &index).finish();
        let stu = check_edges(&gu, Some(&adj), false).map_err(|e| format!("unpruned graph: {}", e))?;
        c.count("unpruned_graphs", 1);
        c.count("dangling_extension_bits_in_unpruned_graphs", dangling_bits as u64);
        c.count("edges_checked", stu.edges);
    }

    // find_link for arbitrary queries
    let seqs_nodes: Vec<S> = (0..g.len()).map(|i| g.get_node(i).sequence().bytes()).collect();
    let ti = TermIndex::new(seqs_nodes.clone(), k, stranded);
    let mut queries: Vec<S> = Vec::new();
    if k <= 5 || (k == 6 && c.idx % 4 == 0) {
        queries = all_kmers_of_len(k);
        c.hit("graphs_with_exhaustive_find_link");
    } else {
        for s in &seqs_nodes {
            for w in [&s[..k], &s[s.len() - k..]] {
                queries.push(w.to_vec());
                queries.push(rc(w));
                // one-base neighbours of terminal k-mers: mostly absent
                let mut m = w.to_vec();
                let p = c.rng.below(k);
                m[p] = (m[p] + 1) & 3;
                queries.push(m);
            }
            // internal k-mers are not node ends
            if s.len() > k + 1 {
                let i = 1 + c.rng.below(s.len() - k - 1);
                queries.push(s[i..i + k].to_vec());
            }
        }
        for _ in 0..50 {
            queries.push(c.rng.bases(k, 4));
        }
    }
    check_find_link_queries(&g, &ti, &queries, &mut st)?;

    // fix_exts with random valid-node sets, checked against the terminal index
    if g.len() > 0 {
        let mut valid = BitSet::with_capacity(g.len());
        for i in 0..g.len() {
            if c.rng.chance(2, 3) {
                valid.insert(i);
            }
        }
        for i in 0..g.len() {
            let got = g.get_valid_exts(i, Some(&valid)).val;
            let node = g.get_node(i);
            let s = &seqs_nodes[i];
            let mut exp = 0u8;
            for side in [L, R] {
                let term: S = if side == L { s[..k].to_vec() } else { s[s.len() - k..].to_vec() };
                for b in 0..4u8 {
                    if node.exts().val & bit(side, b) == 0 {
                        continue;
                    }
                    let q = ext_str(&term, side, b);
                    let links = ti.links(&q, side);
                    if links.iter().any(|l| valid.contains(l.0)) {
                        exp |= bit(side, b);
                    }
                }
            }
            ensure!(
                got == exp,
                "get_valid_exts(node {}, valid set) = {:#04x}, expected {:#04x}",
                i,
                got,
                exp
            );
            c.count("fix_exts_nodes_checked", 1);
        }
    }

    // fix_exts itself (mutating): query one node side, prune against a valid set, and check every
    // edge list again starting with the side queried last (answers must follow the new extensions)
    if g.len() > 0 {
        let mut gm = lib_direct::<K>(&seqs, stranded, gc.thr).0;
        let mut valid = BitSet::with_capacity(gm.len());
        for i in 0..gm.len() {
            if c.rng.chance(2, 3) {
                valid.insert(i);
            }
        }
        let expect: Vec<u8> = (0..gm.len()).map(|i| gm.get_valid_exts(i, Some(&valid)).val).collect();
        let _ = gm.get_node(0).l_edges();
        gm.fix_exts(Some(&valid));
        for i in 0..gm.len() {
            ensure!(gm.get_node(i).exts().val == expect[i], "fix_exts(valid set): node {} has extensions {:#04x}, get_valid_exts said {:#04x}", i, gm.get_node(i).exts().val, expect[i]);
        }
        // (edges out of invalid nodes are kept, so the edge relation is deliberately one-sided here)
        check_edges_opts(&gm, None, false, false).map_err(|e| format!("after fix_exts(valid set): {}", e))?;
        for i in 0..gm.len() {
            for d in [Dir::Left, Dir::Right] {
                for e in gm.get_node(i).edges(d) {
                    ensure!(valid.contains(e.0), "after fix_exts(valid set) node {} still reports an edge to the invalid node {}", i, e.0);
                }
            }
        }
        c.count("fix_exts_mutations_checked", 1);
    }

    // best paths and random walks
    if c.verbose {
        for i in 0..g.len() {
            let n = g.get_node(i);
            c.log(|| format!("node {} seq {} exts {:?} L{:?} R{:?} data {:?}", i, ascii(&seqs_nodes[i]), n.exts(), n.l_edges(), n.r_edges(), n.data()));
        }
        c.log(|| format!("{}", gc.json()));
    }
    if g.len() > 0 {
        let variant = c.rng.below(3);
        let solid_mod = c.rng.range(1, 3) as u32;
        let score = |d: &Pay| -> f32 {
            match variant {
                0 => d.ids.len() as f32,
                1 => (d.ids.iter().map(|x| *x as u64).sum::<u64>() % 17) as f32,
                _ => 1.0,
            }
        };
        let solid = |d: &Pay| d.ids.len() as u32 % solid_mod == 0;
        let p = g.max_path(score, solid);
        ensure!(!p.is_empty(), "max_path of a non-empty graph is empty");
        check_walk(&g, &p, true).map_err(|e| format!("max_path: {}", e))?;
        c.count("max_path_nodes", p.len() as u64);
        if p.len() > 1 {
            c.hit("max_paths_longer_than_one");
        }
        let beam = c.rng.range(1, 4);
        let pb = g.max_path_beam(beam, score, solid);
        check_walk(&g, &pb, false).map_err(|e| format!("max_path_beam: {}", e))?;
        // random walk along reported edges
        let mut cur = (c.rng.below(g.len()), if c.rng.chance(1, 2) { Dir::Left } else { Dir::Right });
        let mut walk = vec![cur];
        for _ in 0..c.rng.range(0, 30) {
            let out = match cur.1 {
                Dir::Left => Dir::Right,
                Dir::Right => Dir::Left,
            };
            let edges = g.get_node(cur.0).edges(out);
            if edges.is_empty() {
                break;
            }
            let e = edges[c.rng.below(edges.len())];
            cur = (e.0, e.1);
            walk.push(cur);
        }
        check_walk(&g, &walk, false).map_err(|e| format!("random walk: {}", e))?;
        c.count("walk_steps", walk.len() as u64 - 1);
    } else {
        ensure!(g.max_path(|_| 1.0, |_| true).is_empty(), "max_path of empty graph not empty");
        c.hit("empty_graphs");
    }

    c.count("graphs", 1);
    c.count("edges_checked", st.edges);
    c.count("flip_edges", st.flips);
    c.count("self_links", st.self_links);
    c.count("hairpin_self_links", st.hairpins);
    c.count("palindromic_single_kmer_nodes", st.pal_nodes);
    c.count("find_link_queries", st.queries);
    c.count("find_link_absent_queries", st.absent_queries);
    c.count("cases_stranded", stranded as u64);
    if st.edges > 0 && (st.flips > 0 || st.self_links > 0 || st.pal_nodes > 0 || g.len() > 2) {
        c.nontrivial(gc.hash());
    }
    c.sample(|| gc.json());
    Ok(())
}

/// > 65 535 observations of one read followed by a read that diverges from it: the late observation
/// brings a new neighbour; through the library's CountFilter and the direct pipeline
fn c03_abundant(c: &mut Case) -> Result<(), String> {
    type K = Kmer12;
    let k = 12;
    let stranded = c.rng.chance(1, 2);
    let r0 = c.rng.bases(k + c.rng.range(4, 12), 4);
    let copies = 65_540 + c.rng.below(200);
    let mut div = r0[..k + 2].to_vec();
    let nb = (r0[k + 2] + 1 + c.rng.below(3) as u8) & 3;
    div.push(nb);
    div.extend(c.rng.bases(6, 4));
    let mut reads: Vec<S> = vec![r0.clone(); copies];
    reads.push(div);
    if c.rng.chance(1, 2) {
        reads.push(rc(&r0));
    }
    let seqs = whole_reads(&reads);
    // threshold 1: the diverging read's own k-mers are retained, so its (K+1)-mer junction is an adjacency
    let thr = 1;
    let (mut rows, _) = lib_count_table::<K>(&seqs, stranded, thr, false);
    remove_censored_exts(stranded, &mut rows);
    let rows_p: Vec<(K, (Exts, Pay))> = rows.iter().map(|(kk, (e, cnt))| (*kk, (*e, Pay { colour: 0, ids: vec![*cnt as u32] }))).collect();
    let g = compress_kmers(stranded, &SpySpec::new(false), &rows_p).finish();
    let t = build_table(&seqs, k, stranded);
    let keyset: BTreeSet<S> = t.iter().filter(|(_, r)| r.obs.len() >= thr).map(|(x, _)| x.clone()).collect();
    let adj = adjacency(&seqs, k, stranded, &keyset);
    let node_keys: BTreeSet<S> = node_partition(&views(&g.base), k, stranded).into_iter().flatten().collect();
    ensure!(node_keys == keyset, "abundant input: graph k-mer set != retained k-mer set");
    check_edges(&g, Some(&adj), true).map_err(|e| format!("abundant input ({} copies of one read + a diverging read): {}", copies, e))?;
    c.count("abundant_kmer_graphs", 1);
    c.nontrivial(H::new().u(copies as u64).b(&r0).get());
    Ok(())
}

pub fn run_c03(ctx: &Ctx) {
    let n = ctx.n(30_000, 1_500_000);
    ctx.run_group("edges", n, false, |c| {
        let gc = gen_gcase(c);
        with_graph_k!(gc.kidx, K => c03_case::<K>(c, &gc))
    });
    if !ctx.is_miri() && ctx.lane != "asan" {
        ctx.set_case_timeout(900);
        ctx.run_group("edges_large", ctx.n(2, 50), false, |c| {
            let gc = gen_large_gcase(c);
            c.count("large_cases", 1);
            with_graph_k!(gc.kidx, K => c03_case::<K>(c, &gc))
        });
    }
    if !ctx.is_miri() && ctx.lane != "asan" {
        ctx.run_group("abundant", ctx.n(6, 40), false, |c| c03_abundant(c));
    }
    // hand-built graphs: arbitrary node sequences, every k-mer queried
    let nh = ctx.n(20_000, 1_000_000);
    ctx.run_group("handbuilt", nh, false, |c| {
        let r = if c.rng.chance(1, 2) { check_handbuilt::<Kmer4>(&c.rng, false) } else if c.rng.chance(1, 2) { check_handbuilt::<Kmer5>(&c.rng, false) } else { check_handbuilt::<Kmer6>(&c.rng, false) };
        let (q, a, p) = r?;
        c.count("handbuilt_graphs", 1);
        c.count("find_link_queries", q);
        c.count("find_link_absent_queries", a);
        c.count("handbuilt_palindromic_terminal_kmers", p);
        c.nontrivial(H::new().u(c.idx).u(q).get());
        Ok(())
    });
    if !ctx.is_miri() {
        ctx.require("dangling_extension_bits_in_unpruned_graphs", 100);
        ctx.require("handbuilt_palindromic_terminal_kmers", 100);
        ctx.require("edges_checked", 1000);
        ctx.require("flip_edges", 50);
        ctx.require("hairpin_self_links", 5);
        ctx.require("find_link_absent_queries", 1000);
        ctx.require("censored_prunings_checked", 1000);
        ctx.require("max_paths_longer_than_one", 20);
        ctx.require("cases_stranded", 20);
    }
}

// ---------------------------------------------------------------------------------------------
// C04 sharded == direct
// ---------------------------------------------------------------------------------------------

#[derive(Clone)]
pub struct Shard<V> {
    pub pieces: Vec<(V, Exts, u32)>,
}

/// the documented sharded pipeline; returns final graph and number of shards
pub fn lib_sharded<K: Kmer + Send + Sync, P: Kmer, V: Vmer + Clone>(
    seqs: &[Seq],
    stranded: bool,
    thr: usize,
    perm: Option<&[usize]>,
    shard_order_rev: bool,
) -> (DebruijnGraph<K, Pay>, usize) {
    let k = K::k();
    let mut shards: BTreeMap<u32, Vec<(V, Exts, u32)>> = BTreeMap::new();
    for sq in seqs {
        // whole reads only (boundary extensions of the read itself are empty)
        let parts = msp_sequence::<P, V>(k, &sq.bases, perm, !stranded);
        for (bucket, exts, piece) in parts {
            shards.entry(bucket).or_default().push((piece, exts, sq.label));
        }
    }
    let nshards = shards.len();
    let spec = SpySpec::new(false);
    let mut graphs: Vec<BaseGraph<K, Pay>> = Vec::new();
    let mut order: Vec<u32> = shards.keys().cloned().collect();
    if shard_order_rev {
        order.reverse();
    }
    for b in order {
        let input = &shards[&b];
        let (mut rows, all) = lib_filter_spy::<K, V>(input, stranded, thr, true);
        remove_censored_exts_sharded(stranded, &mut rows, &all);
        graphs.push(compress_kmers(stranded, &spec, &rows));
    }
    if graphs.is_empty() {
        // combine of nothing yields an unstranded-by-default flag mix; build an empty graph directly
        let g: BaseGraph<K, Pay> = BaseGraph::new(stranded);
        return (g.finish(), 0);
    }
    let combined = BaseGraph::combine(graphs.into_iter()).finish();
    let g = compress_graph(stranded, &spec, combined, None);
    (g, nshards)
}

fn c04_generic<K: Kmer + Send + Sync, P: Kmer, V: Vmer + Clone>(
    c: &mut Case,
    gc: &GCase,
) -> Result<(), String> {
    let k = K::k();
    let p = P::k();
    let stranded = gc.stranded;
    let seqs: Vec<Seq> = gc
        .reads
        .iter()
        .enumerate()
        .map(|(i, r)| Seq {
            bases: r.clone(),
            exts: 0,
            // few distinct labels so that label multisets have repeats
            label: (i % 3) as u32,
        })
        .collect();
    let perm: Option<Vec<usize>> = match c.rng.below(3) {
        0 => None,
        1 => {
            let mut v: Vec<usize> = (0..1usize << (2 * p)).collect();
            c.rng.shuffle(&mut v);
            Some(v)
        }
        _ => Some((0..1usize << (2 * p)).rev().collect()),
    };
    let (gs, nshards) = lib_sharded::<K, P, V>(&seqs, stranded, gc.thr, perm.as_deref(), c.rng.chance(1, 2));
    // the one-pass reference is sometimes made under a small memory budget (several bucket passes)
    let multi = c.rng.chance(1, 3);
    if multi {
        let windows: usize = seqs.iter().map(|s| (s.bases.len() + 1).saturating_sub(k)).sum();
        let kmer_mem = windows * std::mem::size_of::<(K, u32)>();
        let slices = *c.rng.pick(&[2usize, 3, 5, 7]);
        if kmer_mem > slices {
            debruijn::verif_hooks::set_filter_mem_unit(Some((kmer_mem / (slices - 1)).max(1)));
        }
    }
    let (gd, _) = lib_direct::<K>(&seqs, stranded, gc.thr);
    if multi {
        let passes = debruijn::verif_hooks::filter_pass_trace().len();
        debruijn::verif_hooks::set_filter_mem_unit(None);
        c.count("direct_pipelines_with_several_bucket_passes", (passes > 1) as u64);
    }
    let ss = summarize(&pay_views(&gs), k, stranded);
    let sd = summarize(&pay_views(&gd), k, stranded);
    let sm = model_summary(&seqs, k, stranded, gc.thr);
    diff_summaries(&ss, &sd, "sharded", "direct")?;
    diff_summaries(&sd, &sm, "direct", "model")?;
    diff_summaries(&ss, &sm, "sharded", "model")?;
    // every extension bit of the sharded result must resolve
    check_edges(&gs, Some(&sm.adjacency), true).map_err(|e| format!("sharded graph: {}", e))?;
    c.count("graphs_compared", 1);
    c.count("shards", nshards as u64);
    c.count("cases_with_multiple_shards", (nshards > 1) as u64);
    c.count("cases_with_many_shards", (nshards > 4) as u64);
    c.count("nodes", ss.partition.len() as u64);
    c.count("cases_stranded", stranded as u64);
    let merged = ss.partition.iter().any(|cls| cls.len() > 1);
    if nshards > 1 && merged {
        c.nontrivial(gc.hash());
    }
    c.sample(|| {
        let mut j = gc.json();
        j["P"] = json!(p);
        j["shards"] = json!(nshards);
        j["permutation"] = json!(match &perm {
            None => "default",
            Some(_) => "custom",
        });
        j
    });
    Ok(())
}

pub const C04_COMBOS: [(&str, &str, &str, usize); 18] = [
    ("Kmer4", "Kmer2", "Lmer1", 4),
    ("Kmer5", "Kmer3", "DnaBytes", 5),
    ("Kmer5", "Kmer2", "DnaString", 5),
    ("Kmer6", "Kmer2", "DnaString", 6),
    ("Kmer6", "Kmer4", "Lmer1", 6),
    ("Kmer8", "Kmer5", "Lmer2", 8),
    ("Kmer8", "Kmer3", "DnaString", 8),
    ("Kmer12", "Kmer6", "DnaBytes", 12),
    ("Kmer15", "Kmer5", "Lmer1", 15),
    ("Kmer16", "Kmer8", "DnaString", 16),
    ("Kmer20", "Kmer6", "Lmer2", 20),
    ("Kmer24", "Kmer6", "Lmer2", 24),
    ("Kmer31", "Kmer8", "Lmer2", 31),
    ("Kmer32", "Kmer6", "Lmer3", 32),
    ("Kmer48", "Kmer8", "DnaString", 48),
    ("Kmer64", "Kmer4", "DnaBytes", 64),
    ("Kmer20", "Kmer10", "DnaString", 20),
    ("Kmer24", "Kmer10", "Lmer2", 24),
];

fn c04_dispatch(c: &mut Case, combo: usize, gc: &GCase) -> Result<(), String> {
    match combo {
        0 => c04_generic::<Kmer4, Kmer2, Lmer1>(c, gc),
        1 => c04_generic::<Kmer5, Kmer3, DnaBytes>(c, gc),
        2 => c04_generic::<Kmer5, Kmer2, DnaString>(c, gc),
        3 => c04_generic::<Kmer6, Kmer2, DnaString>(c, gc),
        4 => c04_generic::<Kmer6, Kmer4, Lmer1>(c, gc),
        5 => c04_generic::<Kmer8, Kmer5, Lmer2>(c, gc),
        6 => c04_generic::<Kmer8, Kmer3, DnaString>(c, gc),
        7 => c04_generic::<Kmer12, Kmer6, DnaBytes>(c, gc),
        8 => c04_generic::<Kmer15, Kmer5, Lmer1>(c, gc),
        9 => c04_generic::<Kmer16, Kmer8, DnaString>(c, gc),
        10 => c04_generic::<Kmer20, Kmer6, Lmer2>(c, gc),
        11 => c04_generic::<Kmer24, Kmer6, Lmer2>(c, gc),
        12 => c04_generic::<Kmer31, Kmer8, Lmer2>(c, gc),
        13 => c04_generic::<Kmer32, Kmer6, Lmer3>(c, gc),
        14 => c04_generic::<Kmer48, Kmer8, DnaString>(c, gc),
        15 => c04_generic::<Kmer64, Kmer4, DnaBytes>(c, gc),
        16 => c04_generic::<Kmer20, Kmer10, DnaString>(c, gc),
        17 => c04_generic::<Kmer24, Kmer10, Lmer2>(c, gc),
        _ => unreachable!(),
    }
}

fn gen_c04(c: &mut Case) -> (usize, GCase) {
    let combo = if c.lane_miri {
        c.rng.below(5)
    } else if c.rng.chance(7, 10) {
        c.rng.below(8)
    } else if c.rng.chance(1, 12) {
        // wide minimizers (4^10 / 4^12 entry permutations are allocated per call): rare
        c.rng.range(16, 17)
    } else {
        c.rng.range(8, 15)
    };
    let k = C04_COMBOS[combo].3;
    let mut reads = gen_reads(&c.rng, k);
    if combo >= 16 {
        // low-complexity stretches make wide p-mers tie / recur
        let n = 3 * k + c.rng.below(40);
        let mut r = c.rng.bases(n, 4);
        let a = c.rng.below(n - 12);
        let runb = c.rng.base();
        for x in r[a..a + 9 + c.rng.below(4)].iter_mut() {
            *x = runb;
        }
        let second = r[c.rng.below(n / 2)..].to_vec();
        reads.push(r);
        reads.push(second);
    }
    // longer reads so that several minimizer intervals occur
    if c.rng.chance(1, 2) {
        let n = 3 * k + c.rng.below(60);
        let alpha = *c.rng.pick(&[2usize, 3, 4, 4]);
        reads.push(c.rng.bases(n, alpha));
    }
    let gc = GCase {
        kidx: GRAPH_K_VALUES.iter().position(|x| *x == k).unwrap(),
        stranded: c.rng.chance(1, 2),
        thr: *c.rng.pick(&[1usize, 1, 2, 2, 3]),
        reads,
        by_colour: false,
        ncol: 2,
        salt: 0,
    };
    (combo, gc)
}

pub fn run_c04(ctx: &Ctx) {
    let n = ctx.n(20_000, 1_000_000);
    ctx.run_group("sharded_vs_direct", n, false, |c| {
        let (combo, gc) = gen_c04(c);
        c04_dispatch(c, combo, &gc).map_err(|e| {
            format!(
                "[K={} P={} V={}] {}",
                C04_COMBOS[combo].0, C04_COMBOS[combo].1, C04_COMBOS[combo].2, e
            )
        })
    });
    if !ctx.is_miri() && ctx.lane != "asan" {
        ctx.set_case_timeout(900);
        let nl = ctx.n(2, 12);
        ctx.run_group("sharded_vs_direct_large", nl, false, |c| c04_large(c));
    }
    if !ctx.is_miri() {
        ctx.require("cases_with_multiple_shards", 200);
        ctx.require("direct_pipelines_with_several_bucket_passes", 200);
        ctx.require("cases_with_many_shards", 20);
        ctx.require("cases_stranded", 20);
    }
}

fn c04_large(c: &mut Case) -> Result<(), String> {
    // a genome with planted repeats, reads tiled over it on both strands, K=24, P=6
    let glen = if c.rng.chance(1, 2) { 20_000 + c.rng.below(20_000) } else { 70_000 + c.rng.below(50_000) };
    let genome = crate::gen::gen_genome(&c.rng, glen, 20, 60);
    let mut reads = Vec::new();
    let mut pos = 0;
    while pos + 30 < genome.len() {
        let len = 80 + c.rng.below(120);
        let end = (pos + len).min(genome.len());
        let r = genome[pos..end].to_vec();
        reads.push(if c.rng.chance(1, 2) { rc(&r) } else { r });
        pos += 20 + c.rng.below(60);
    }
    let gc = GCase {
        kidx: 10,
        stranded: c.rng.chance(1, 3),
        thr: c.rng.range(1, 2),
        reads,
        by_colour: false,
        ncol: 2,
        salt: 0,
    };
    c04_generic::<Kmer24, Kmer6, Lmer2>(c, &gc).map_err(|e| format!("[large K=24 P=6] {}", e))
}

// ---------------------------------------------------------------------------------------------
// C06 strand symmetry / strand separation
// ---------------------------------------------------------------------------------------------

fn table_view<K: Kmer>(rows: &LibRows<K>) -> BTreeMap<S, (u8, Vec<u32>)> {
    rows.iter()
        .map(|(k, (e, p))| {
            let mut ids = p.ids.clone();
            ids.sort();
            (kstr(k), (e.val, ids))
        })
        .collect()
}

fn c06_case<K: Kmer + Send + Sync>(c: &mut Case, gc: &GCase) -> Result<(), String> {
    let k = K::k();
    let n = gc.reads.len();
    let mk = |subset: u64| -> Vec<Seq> {
        gc.reads
            .iter()
            .enumerate()
            .map(|(i, r)| Seq {
                bases: if subset >> i & 1 == 1 { rc(r) } else { r.clone() },
                exts: 0,
                label: i as u32,
            })
            .collect()
    };
    let base_seqs = mk(0);
    if gc.stranded {
        // strand separation: exactly the forward-strand k-mers and links of the reads
        let input = dna_seqs(&base_seqs);
        let (rows, _) = lib_filter_spy::<K, DnaString>(&input, true, gc.thr, false);
        let tv = table_view(&rows);
        let t = build_table(&base_seqs, k, true);
        let mut both_strands = 0u64;
        for (key, row) in &t {
            if row.obs.len() >= gc.thr {
                let got = tv
                    .get(key)
                    .ok_or_else(|| format!("stranded: forward k-mer {} missing from table", ascii(key)))?;
                let mut labels: Vec<u32> = row.obs.iter().map(|o| o.read as u32).collect();
                labels.sort();
                ensure!(
                    got.0 == row.mask && got.1 == labels,
                    "stranded: row of {} is ({:#04x},{:?}), forward-strand model says ({:#04x},{:?}) - strands were mixed",
                    ascii(key),
                    got.0,
                    got.1,
                    row.mask,
                    labels
                );
                if t.contains_key(&rc(key)) && rc(key) != *key {
                    both_strands += 1;
                }
            } else {
                ensure!(!tv.contains_key(key), "stranded: rejected k-mer {} present", ascii(key));
            }
        }
        for key in tv.keys() {
            ensure!(
                t.contains_key(key),
                "stranded: table key {} is not a forward-strand window of any read",
                ascii(key)
            );
        }
        let (g, _) = lib_direct::<K>(&base_seqs, true, gc.thr);
        let sm = model_summary(&base_seqs, k, true, gc.thr);
        let sd = summarize(&pay_views(&g), k, true);
        diff_summaries(&sd, &sm, "stranded direct", "forward-strand model")?;
        let st = check_edges(&g, Some(&sm.adjacency), true)?;
        ensure!(st.flips == 0, "stranded graph reports flip edges");
        // unpruned route (filter -> compress_kmers_with_hash -> finish): extension bits towards rejected
        // k-mers must not resolve - in particular not through the reverse complement
        {
            let (rows_u, _) = lib_filter_spy::<K, DnaString>(&input, true, gc.thr, false);
            let keys: Vec<K> = rows_u.iter().map(|r| r.0).collect();
            let exts: Vec<Exts> = rows_u.iter().map(|r| (r.1).0).collect();
            let data: Vec<Pay> = rows_u.iter().map(|r| (r.1).1.clone()).collect();
            let index = BoomHashMap2::new(keys, exts, data);
            let gu = compress_kmers_with_hash(true, &SpySpec::new(false), &index).finish();
            let stu = check_edges(&gu, Some(&sm.adjacency), false).map_err(|e| format!("stranded unpruned graph: {}", e))?;
            ensure!(stu.flips == 0, "stranded unpruned graph reports flip edges");
            c.count("stranded_unpruned_graphs", 1);
        }
        // sharded route in stranded mode (pruning against per-shard all_kmers must not mix strands)
        if c.rng.chance(1, 2) {
            let gs = if k > 5 {
                lib_sharded::<K, Kmer3, DnaString>(&base_seqs, true, gc.thr, None, false).0
            } else {
                lib_sharded::<K, Kmer2, DnaString>(&base_seqs, true, gc.thr, None, false).0
            };
            let ss = summarize(&pay_views(&gs), k, true);
            diff_summaries(&ss, &sm, "stranded sharded", "forward-strand model")?;
            c.count("stranded_sharded_graphs", 1);
        }
        c.count("stranded_cases", 1);
        c.count("stranded_kmers_present_on_both_strands", both_strands);
        if both_strands > 0 {
            c.nontrivial(gc.hash());
        }
        c.sample(|| gc.json());
        return Ok(());
    }
    // unstranded: all 2^n subsets for n <= 4, else 8 random ones
    let subsets: Vec<u64> = if n <= 4 {
        (0..(1u64 << n)).collect()
    } else {
        let mut v = vec![0u64, (1u64 << n) - 1];
        for _ in 0..6 {
            v.push(c.rng.next() & ((1u64 << n) - 1));
        }
        v
    };
    let sm = model_summary(&base_seqs, k, false, gc.thr);
    let mut reference: Option<(BTreeMap<S, (u8, Vec<u32>)>, GraphSummary)> = None;
    let route = c.rng.below(3);
    for (si, sub) in subsets.iter().enumerate() {
        let seqs = mk(*sub);
        let input = dna_seqs(&seqs);
        // every other subset is filtered under a small memory unit (several bucket passes)
        let multi = si % 2 == 1;
        if multi {
            let windows: usize = seqs.iter().map(|s| (s.bases.len() + 1).saturating_sub(k)).sum();
            let kmer_mem = windows * std::mem::size_of::<(K, u32)>();
            let slices = *c.rng.pick(&[2usize, 3, 5]);
            if kmer_mem > slices {
                debruijn::verif_hooks::set_filter_mem_unit(Some((kmer_mem / (slices - 1)).max(1)));
            }
        }
        let (rows, _) = lib_filter_spy::<K, DnaString>(&input, false, gc.thr, false);
        if multi {
            c.count("subset_runs_with_several_bucket_passes", (debruijn::verif_hooks::filter_pass_trace().len() > 1) as u64);
            debruijn::verif_hooks::set_filter_mem_unit(None);
        }
        let tv = table_view(&rows);
        for key in tv.keys() {
            ensure!(
                *key <= rc(key),
                "unstranded table key {} is not the minimum of itself and its reverse complement",
                ascii(key)
            );
        }
        let g = match route {
            0 => lib_direct::<K>(&seqs, false, gc.thr).0,
            1 => {
                // re-compressed
                let (g, _) = lib_direct::<K>(&seqs, false, gc.thr);
                compress_graph(false, &SpySpec::new(false), g, None)
            }
            _ => {
                // sharded route (K-dependent P): use P = Kmer2/Kmer3 with DnaString pieces
                if k > 5 {
                    lib_sharded::<K, Kmer3, DnaString>(&seqs, false, gc.thr, None, false).0
                } else {
                    lib_sharded::<K, Kmer2, DnaString>(&seqs, false, gc.thr, None, false).0
                }
            }
        };
        let s = summarize(&pay_views(&g), k, false);
        diff_summaries(&s, &sm, &format!("library (reads subset {:#b} reverse-complemented)", sub), "model")?;
        match &reference {
            None => reference = Some((tv, s)),
            Some((tv0, s0)) => {
                ensure!(
                    tv0.len() == tv.len() && tv0.keys().eq(tv.keys()),
                    "k-mer table keys change when reads {:#b} are reverse-complemented",
                    sub
                );
                for (key, (m, ids)) in &tv {
                    let (m0, ids0) = &tv0[key];
                    ensure!(
                        ids == ids0,
                        "observations of {} change under reverse-complementing reads {:#b}: {:?} vs {:?}",
                        ascii(key),
                        sub,
                        ids0,
                        ids
                    );
                    if !is_pal(key, false) {
                        ensure!(
                            m == m0,
                            "extension set of {} changes under reverse-complementing reads {:#b}: {:#04x} vs {:#04x}",
                            ascii(key),
                            sub,
                            m0,
                            m
                        );
                    } else {
                        ensure!(
                            (m | exts_rc(*m)) == (m0 | exts_rc(*m0)),
                            "symmetrised extension set of palindrome {} changes under rc of reads {:#b}",
                            ascii(key),
                            sub
                        );
                    }
                }
                diff_summaries(&s, s0, "rc-subset run", "original run")?;
            }
        }
        c.count("subset_runs", 1);
        let _ = si;
    }
    c.count("unstranded_cases", 1);
    c.count("cases_all_subsets", (n <= 4) as u64);
    if sm.partition.iter().any(|cls| cls.len() > 1) && n >= 2 {
        c.nontrivial(gc.hash());
    }
    c.sample(|| gc.json());
    Ok(())
}

pub fn run_c06(ctx: &Ctx) {
    let n = ctx.n(10_000, 500_000);
    ctx.run_group("strand", n, false, |c| {
        let mut gc = gen_gcase(c);
        gc.stranded = c.rng.chance(1, 3);
        if gc.reads.len() > 6 {
            gc.reads.truncate(6);
        }
        with_graph_k!(gc.kidx, K => c06_case::<K>(c, &gc))
    });
    if !ctx.is_miri() {
        ctx.require("subset_runs", 500);
        ctx.require("subset_runs_with_several_bucket_passes", 200);
        ctx.require("stranded_cases", 50);
        ctx.require("stranded_kmers_present_on_both_strands", 20);
    }
}

// ---------------------------------------------------------------------------------------------
// C09 re-compression and censoring
// ---------------------------------------------------------------------------------------------

/// node-level ids: node i of the input graph gets payload id i
fn relabel<K: Kmer + Send + Sync>(g: &DebruijnGraph<K, Pay>, colour: &dyn Fn(&[u8]) -> u8) -> DebruijnGraph<K, Pay> {
    let mut b: BaseGraph<K, Pay> = BaseGraph::new(g.base.stranded);
    for i in 0..g.len() {
        let n = g.get_node(i);
        let s = n.sequence().bytes();
        let col = colour(&s);
        b.add(
            s,
            n.exts(),
            Pay {
                colour: col,
                ids: vec![i as u32],
            },
        );
    }
    b.finish()
}

/// model of compress_graph: table of surviving k-mers with masks taken from node structure
fn c09_check<K: Kmer + Send + Sync>(
    input: &DebruijnGraph<K, Pay>,
    censor: &[usize],
    by_colour: bool,
    out: &DebruijnGraph<K, Pay>,
) -> Result<(u64, u64), String> {
    let k = K::k();
    let stranded = input.base.stranded;
    let in_views = views(&input.base);
    let censored: BTreeSet<usize> = censor.iter().cloned().collect();
    // surviving k-mer -> (input node, mask in key orientation from the input graph)
    let mut owner: BTreeMap<S, usize> = BTreeMap::new();
    let mut rows: BTreeMap<S, u8> = BTreeMap::new();
    for (ni, n) in in_views.iter().enumerate() {
        if censored.contains(&ni) {
            continue;
        }
        let nw = n.seq.len() - k + 1;
        for i in 0..nw {
            let w = &n.seq[i..i + k];
            let mut e = 0u8;
            if i > 0 {
                e |= bit(L, n.seq[i - 1]);
            } else {
                e |= n.exts & 0x0f;
            }
            if i + k < n.seq.len() {
                e |= bit(R, n.seq[i + k]);
            } else {
                e |= n.exts & 0xf0;
            }
            let (cn, flip) = canon(w, stranded);
            let m = if flip { exts_rc(e) } else { e };
            ensure!(
                owner.insert(cn.clone(), ni).is_none(),
                "input graph holds k-mer {} twice (harness precondition)",
                ascii(&cn)
            );
            *rows.entry(cn).or_insert(0) |= m;
        }
    }
    let pruned = prune_table(&rows, stranded);
    let col_of = |key: &S| in_views[owner[key]].data.colour;
    // joins inside an input node are always allowed (they are already merged); across nodes the predicate applies
    let join = |a: &S, b: &S| owner[a] == owner[b] || !by_colour || col_of(a) == col_of(b);
    let out_views = views(&out.base);
    // k-mer set
    let out_keys: BTreeSet<S> = node_partition(&out_views, k, stranded).into_iter().flatten().collect();
    let exp_keys: BTreeSet<S> = rows.keys().cloned().collect();
    if out_keys != exp_keys {
        let missing: Vec<String> = exp_keys.difference(&out_keys).take(3).map(|x| ascii(x)).collect();
        let extra: Vec<String> = out_keys.difference(&exp_keys).take(3).map(|x| ascii(x)).collect();
        return Err(format!(
            "k-mers of the output != k-mers of the non-censored nodes: missing {:?}, extra (censored or foreign) {:?}",
            missing, extra
        ));
    }
    // no k-mer twice
    let total_windows: usize = out_views.iter().map(|n| n.seq.len() - k + 1).sum();
    ensure!(total_windows == exp_keys.len(), "output holds some k-mer twice ({} windows, {} keys)", total_windows, exp_keys.len());
    check_maximal(&out_views, &pruned, k, stranded, &join)?;
    // payload: ids of exactly the swallowed input nodes, each once
    for (oi, n) in out_views.iter().enumerate() {
        let mut exp: Vec<u32> = n
            .seq
            .windows(k)
            .map(|w| owner[&canon_s(w, stranded)] as u32)
            .collect();
        exp.sort();
        exp.dedup();
        let mut got = n.data.ids.clone();
        got.sort();
        ensure!(
            got == exp,
            "output node {} payload ids {:?} != input nodes it swallowed {:?}",
            oi,
            got,
            exp
        );
    }
    // every extension resolves; adjacency == adjacency of the surviving table
    let adj = adjacency_of_table(&pruned, stranded);
    let st = check_edges(out, Some(&adj), true)?;
    Ok((out_views.len() as u64, st.edges))
}

fn c09_case<K: Kmer + Send + Sync>(c: &mut Case, gc: &GCase) -> Result<(), String> {
    let k = K::k();
    let stranded = gc.stranded;
    let seqs = whole_reads(&gc.reads);
    let salt = gc.salt;
    let ncol = gc.ncol;
    let colour = move |s: &[u8]| ((fnv(&canon_s(&s[..k.min(s.len())], stranded)) ^ salt) % ncol) as u8;
    // input graph variants: fully compressed / one k-mer per node / sharded-combined (partially) /
    // compressed under a colour predicate
    let variant = c.rng.below(5);
    let (gd, rows) = lib_direct::<K>(&seqs, stranded, gc.thr);
    let input: DebruijnGraph<K, Pay> = match variant {
        0 => relabel(&gd, &colour),
        1 => {
            let mut b: BaseGraph<K, Pay> = BaseGraph::new(stranded);
            for (kk, (e, _)) in &rows {
                b.add(kstr(kk), *e, Pay { colour: 0, ids: vec![0] });
            }
            relabel(&b.finish(), &colour)
        }
        2 => {
            // partially compressed: per-shard graphs combined, not yet re-compressed
            let mut shards: BTreeMap<u32, Vec<(DnaString, Exts, u32)>> = BTreeMap::new();
            for sq in &seqs {
                let parts = if k > 5 {
                    msp_sequence::<Kmer3, DnaString>(k, &sq.bases, None, !stranded)
                } else {
                    msp_sequence::<Kmer2, DnaString>(k, &sq.bases, None, !stranded)
                };
                for (b, e, p) in parts {
                    shards.entry(b).or_default().push((p, e, sq.label));
                }
            }
            let spec = SpySpec::new(false);
            let mut graphs = Vec::new();
            for input in shards.values() {
                let (mut r, all) = lib_filter_spy::<K, DnaString>(input, stranded, gc.thr, true);
                remove_censored_exts_sharded(stranded, &mut r, &all);
                graphs.push(compress_kmers(stranded, &spec, &r));
            }
            if graphs.is_empty() {
                relabel(&gd, &colour)
            } else {
                let mut comb = BaseGraph::combine(graphs.into_iter()).finish();
                // bring the combined graph into a valid state (extensions to rejected k-mers of
                // other shards pruned), as compress_graph itself would
                comb.fix_exts(None);
                relabel(&comb, &colour)
            }
        }
        4 => {
            // compressed from the UNPRUNED table: already maximal, but node ends carry extension
            // bits towards rejected k-mers (dangling)
            let input_u = dna_seqs(&seqs);
            let (rows_u, _) = lib_filter_spy::<K, DnaString>(&input_u, stranded, gc.thr, false);
            let bg = compress_kmers(stranded, &SpySpec::new(false), &rows_u);
            relabel(&bg.finish(), &colour)
        }
        _ => {
            // compressed under the colour predicate: colour per k-mer
            let rows_c: LibRows<K> = rows
                .iter()
                .map(|(kk, (e, _))| {
                    (
                        *kk,
                        (
                            *e,
                            Pay {
                                colour: colour(&kstr(kk)),
                                ids: vec![0],
                            },
                        ),
                    )
                })
                .collect();
            let bg = compress_kmers(stranded, &SpySpec::new(true), &rows_c);
            let g = bg.finish();
            // keep the colours
            let mut b: BaseGraph<K, Pay> = BaseGraph::new(stranded);
            for i in 0..g.len() {
                let n = g.get_node(i);
                b.add(
                    n.sequence().bytes(),
                    n.exts(),
                    Pay {
                        colour: n.data().colour,
                        ids: vec![i as u32],
                    },
                );
            }
            b.finish()
        }
    };
    let n_in = input.len();
    // censor set: none / random subset / tips found by CleanGraph
    let censor_kind = c.rng.below(4);
    let censor: Vec<usize> = match censor_kind {
        0 => vec![],
        1 | 2 => {
            let p = c.rng.range(0, 5);
            (0..n_in).filter(|_| c.rng.chance(p, 5)).collect()
        }
        _ => {
            let maxlen = k + c.rng.below(2 * k);
            let cg = CleanGraph::new(|n: &debruijn::graph::Node<'_, K, Pay>| n.len() <= maxlen);
            let bad = cg.find_bad_nodes(&input);
            // oracle for find_bad_nodes: exactly the nodes that are dead ends on one side with at
            // most one extension on the other, and satisfy the predicate
            let exp: Vec<usize> = (0..n_in)
                .filter(|i| {
                    let n = input.get_node(*i);
                    let l = side_bits(n.exts().val, L).count_ones();
                    let r = side_bits(n.exts().val, R).count_ones();
                    ((l == 0 && r <= 1) || (r == 0 && l <= 1)) && n.len() <= maxlen
                })
                .collect();
            ensure!(bad == exp, "find_bad_nodes = {:?}, expected {:?}", bad, exp);
            c.count("tip_censor_sets", 1);
            bad
        }
    };
    let by_colour = c.rng.chance(1, 2);
    // pass the censor list with duplicates / unsorted sometimes (a Vec<usize>, any order)
    let mut censor_arg = censor.clone();
    if c.rng.chance(1, 3) {
        c.rng.shuffle(&mut censor_arg);
    }
    let input_copy = relabel_same(&input);
    let spec = SpySpec::new(by_colour);
    let out = compress_graph(
        stranded,
        &spec,
        input,
        if censor_kind == 0 { None } else { Some(censor_arg) },
    );
    let (n_out, edges) = c09_check(&input_copy, &censor, by_colour, &out)
        .map_err(|e| format!("compress_graph(input variant {}, censor {:?}, by_colour {}): {}", variant, censor, by_colour, e))?;
    // idempotence: re-compressing the result changes nothing
    let s1 = summarize(&pay_views(&out), k, stranded);
    let out_copy = relabel_same(&out);
    let again = compress_graph(stranded, &SpySpec::new(by_colour), out, None);
    let mut s2 = summarize(&pay_views(&again), k, stranded);
    // payload ids are folded again in a different order; compare as sorted multisets (summarize sorts)
    diff_summaries(&s1, &s2, "compressed graph", "re-compressed graph").map_err(|e| format!("idempotence: {}", e))?;
    // ... and the very same graph object handed back once more, now with the OTHER predicate
    {
        let again_copy = relabel_same(&again);
        let other = !by_colour;
        let third = compress_graph(stranded, &SpySpec::new(other), again, None);
        // the model wants one id per input node: relabel `again` by node index, keeping its colours
        let mut b2: BaseGraph<K, Pay> = BaseGraph::new(stranded);
        for i in 0..again_copy.len() {
            let n = again_copy.get_node(i);
            b2.add(n.sequence().bytes(), n.exts(), Pay { colour: n.data().colour, ids: vec![i as u32] });
        }
        let model_input = b2.finish();
        // `third` folds the id LISTS of `again`; map them back to node indices of `again`
        let mut third_b: BaseGraph<K, Pay> = BaseGraph::new(stranded);
        for i in 0..third.len() {
            let n = third.get_node(i);
            // every swallowed node contributes its whole id list; recover the node by any of its ids
            let mut nodes_in: Vec<u32> = Vec::new();
            let all_ids: BTreeSet<u32> = n.data().ids.iter().cloned().collect();
            for j in 0..again_copy.len() {
                let ids_j = &again_copy.get_node(j).data().ids;
                if all_ids.contains(&ids_j[0]) {
                    nodes_in.push(j as u32);
                }
            }
            third_b.add(n.sequence().bytes(), n.exts(), Pay { colour: n.data().colour, ids: nodes_in });
        }
        let third_view = third_b.finish();
        c09_check(&model_input, &[], other, &third_view)
            .map_err(|e| format!("the graph returned by compress_graph(by_colour={}) handed back with by_colour={}: {}", by_colour, other, e))?;
        c.count("same_object_predicate_switches", 1);
    }
    s2.payload.clear();
    // the same output re-compressed under the OTHER predicate must follow that predicate (a result
    // must not be "remembered as compressed")
    {
        let relabelled = relabel(&out_copy, &colour);
        let check_copy = relabel_same(&relabelled);
        let other = !by_colour;
        let out3 = compress_graph(stranded, &SpySpec::new(other), relabelled, None);
        c09_check(&check_copy, &[], other, &out3)
            .map_err(|e| format!("compress_graph(by_colour={}) of a graph produced by compress_graph(by_colour={}): {}", other, by_colour, e))?;
        c.count("predicate_switch_recompressions", 1);
    }
    // route equality without censoring and with the always-true predicate
    if censor.is_empty() && !by_colour && variant != 3 && variant != 4 {
        let sd = summarize(&pay_views(&gd), k, stranded);
        ensure!(
            s1.partition == sd.partition && s1.adjacency == sd.adjacency,
            "compress_graph of input variant {} gives a different partition/adjacency than the direct route",
            variant
        );
        c.count("route_equalities_checked", 1);
    }
    c.count("recompressions", 1);
    c.count("input_nodes", n_in as u64);
    c.count("output_nodes", n_out);
    c.count("output_edges", edges);
    c.count("censored_nodes", censor.len() as u64);
    c.count("cases_with_censoring", (!censor.is_empty()) as u64);
    c.count("cases_merging_nodes", (n_out < (n_in - censor.len()) as u64) as u64);
    match variant {
        0 => c.hit("input_fully_compressed"),
        1 => c.hit("input_one_kmer_per_node"),
        2 => c.hit("input_partially_compressed"),
        4 => c.hit("input_with_dangling_extensions"),
        _ => c.hit("input_colour_compressed"),
    }
    if n_in > 1 && (!censor.is_empty() || n_out < n_in as u64) {
        c.nontrivial(H::new().u(gc.hash()).u(variant as u64).u(censor.len() as u64).get());
    }
    c.sample(|| {
        let mut j = gc.json();
        j["input_variant"] = json!(variant);
        j["censor"] = json!(censor);
        j
    });
    Ok(())
}

fn relabel_same<K: Kmer + Send + Sync>(g: &DebruijnGraph<K, Pay>) -> DebruijnGraph<K, Pay> {
    let mut b: BaseGraph<K, Pay> = BaseGraph::new(g.base.stranded);
    for i in 0..g.len() {
        let n = g.get_node(i);
        b.add(n.sequence().bytes(), n.exts(), n.data().clone());
    }
    b.finish()
}

/// a long sequence cut into consecutive nodes (overlap K-1) of 1..12 kb, stored in random
/// orientation: compress_graph must join them into one node spelling the sequence
fn c09_long_nodes<K: Kmer + Send + Sync>(c: &mut Case) -> Result<(), String> {
    let k = K::k();
    let stranded = c.rng.chance(1, 2);
    let total = c.rng.range(9_000, 40_000);
    let s = c.rng.bases(total, 4);
    {
        let mut ws: Vec<&[u8]> = s.windows(k).collect();
        ws.sort();
        let n0 = ws.len();
        ws.dedup();
        let canon_set: BTreeSet<S> = s.windows(k).map(|w| canon_s(w, stranded)).collect();
        if ws.len() != n0 || canon_set.len() != n0 {
            return Ok(()); // a repeated k-mer: not an unbranched line
        }
        if s.windows(k).any(|w| is_pal(w, stranded)) {
            // a self-reverse-complement k-mer must be a node of its own; a hand-cut node hiding one
            // would not be a valid input graph
            c.count("long_node_cases_skipped_for_palindromes", 1);
            return Ok(());
        }
    }
    let mut b: BaseGraph<K, Pay> = BaseGraph::new(stranded);
    let mut pos = 0usize;
    let mut id = 0u32;
    let mut lens = Vec::new();
    while pos + k <= total {
        let len = (*c.rng.pick(&[k + 1, 300, 4095, 4096, 4097, 5000, 8191, 8192, 12_000])).max(k);
        let end = (pos + len).min(total);
        if total - end < k && end != total {
            // do not leave a tail shorter than a k-mer
        }
        let end = if total - end < 1 { total } else { end };
        let piece = &s[pos..end];
        let flip = !stranded && c.rng.chance(1, 2);
        let (seq, left, right): (S, Option<u8>, Option<u8>) = {
            let l = if pos > 0 { Some(s[pos - 1]) } else { None };
            let r = if end < total { Some(s[end]) } else { None };
            if flip { (rc(piece), r.map(|x| 3 - x), l.map(|x| 3 - x)) } else { (piece.to_vec(), l, r) }
        };
        let mut e = 0u8;
        if let Some(x) = left { e |= bit(L, x); }
        if let Some(x) = right { e |= bit(R, x); }
        b.add(&seq, Exts::new(e), Pay { colour: 0, ids: vec![id] });
        id += 1;
        lens.push(end - pos);
        if end == total { break; }
        pos = end - (k - 1);
    }
    let g = b.finish();
    let copy = relabel_same(&g);
    let out = compress_graph(stranded, &SpySpec::new(false), g, None);
    c09_check(&copy, &[], false, &out).map_err(|e| format!("joining {} consecutive nodes of lengths {:?} (K={}, stranded={}): {}", lens.len(), lens, k, stranded, e))?;
    ensure!(out.len() == 1, "joining {} consecutive nodes gives {} nodes", lens.len(), out.len());
    let got = out.get_node(0).sequence().bytes();
    ensure!(got == s || got == rc(&s), "the joined node does not spell the original sequence (lengths {:?})", lens);
    c.count("long_node_joins", 1);
    c.count("long_nodes_of_4096_or_more_bases", lens.iter().filter(|l| **l >= 4096).count() as u64);
    c.nontrivial(H::new().u(c.idx).u(total as u64).get());
    Ok(())
}

/// one-k-mer-per-node chain of 2^17 .. 3*10^5 nodes, nodes in chain order (the first seed sits at an
/// end, so one walk direction covers the whole chain): must come back as ONE node spelling the sequence
fn c09_long_chain(c: &mut Case) -> Result<(), String> {
    type K = Kmer32;
    let k = 32;
    let n_nodes = *c.rng.pick(&[131_071usize, 131_072, 131_073, 140_000, 262_145, 300_000]);
    let s = c.rng.bases(n_nodes + k - 1, 4);
    let mut b: BaseGraph<K, Pay> = BaseGraph::new(true);
    for i in 0..n_nodes {
        let mut e = 0u8;
        if i > 0 { e |= bit(L, s[i - 1]); }
        if i + k < s.len() { e |= bit(R, s[i + k]); }
        b.add(&s[i..i + k], Exts::new(e), Pay { colour: 0, ids: vec![i as u32] });
    }
    // (random 32-mers: a repeated k-mer has probability ~ n^2 / 4^32, i.e. none)
    let out = compress_graph(true, &SpySpec::new(false), b.finish(), None);
    ensure!(out.len() == 1, "a chain of {} one-k-mer nodes is compressed into {} nodes instead of 1 (sizes {:?})", n_nodes, out.len(), (0..out.len().min(4)).map(|i| out.get_node(i).len()).collect::<Vec<_>>());
    ensure!(out.get_node(0).sequence().bytes() == s, "the node compressed from a chain of {} one-k-mer nodes does not spell the sequence", n_nodes);
    ensure!(out.get_node(0).exts().val == 0, "compressed chain has extensions {:#04x}", out.get_node(0).exts().val);
    let mut ids = out.get_node(0).data().ids.clone();
    ids.sort();
    ensure!(ids.len() == n_nodes && ids.iter().enumerate().all(|(i, x)| *x == i as u32), "payload of the compressed chain is not every node id once");
    c.count("long_chains", 1);
    c.nontrivial(H::new().u(n_nodes as u64).u(c.idx).get());
    Ok(())
}

pub fn run_c09(ctx: &Ctx) {
    let n = ctx.n(30_000, 1_500_000);
    ctx.run_group("recompress", n, false, |c| {
        let gc = gen_gcase(c);
        with_graph_k!(gc.kidx, K => c09_case::<K>(c, &gc))
    });
    if !ctx.is_miri() {
        ctx.run_group("long_nodes", ctx.n(300, 10_000), false, |c| match c.rng.below(3) {
            0 => c09_long_nodes::<Kmer16>(c),
            1 => c09_long_nodes::<Kmer24>(c),
            _ => c09_long_nodes::<Kmer32>(c),
        });
        ctx.require("long_nodes_of_4096_or_more_bases", 100);
        ctx.require("predicate_switch_recompressions", 1000);
    }
    if !ctx.is_miri() && ctx.lane == "release" {
        ctx.set_case_timeout(900);
        ctx.run_group_t("long_chain", ctx.n(3, 12), false, 3, |c| c09_long_chain(c));
        ctx.require("long_chains", 3);
    }
    if !ctx.is_miri() && ctx.lane != "asan" {
        ctx.set_case_timeout(900);
        ctx.run_group("recompress_large", ctx.n(3, 60), false, |c| {
            let gc = gen_large_gcase(c);
            c.count("large_cases", 1);
            with_graph_k!(gc.kidx, K => c09_case::<K>(c, &gc))
        });
    }
    if !ctx.is_miri() {
        ctx.require("cases_with_censoring", 200);
        ctx.require("cases_merging_nodes", 200);
        ctx.require("input_one_kmer_per_node", 100);
        ctx.require("input_partially_compressed", 100);
        ctx.require("input_with_dangling_extensions", 100);
        ctx.require("tip_censor_sets", 50);
        ctx.require("route_equalities_checked", 50);
    }
}
