//! C18: node k-mer iteration obeys the iterator contract.

use crate::gor::*;
use crate::ktypes::*;
use crate::model::*;
use crate::p_graph::{gen_gcase, lib_direct, GCase};
use crate::runner::{Case, Ctx};
use crate::util::{ascii, H};
use crate::{ensure, with_graph_k};
use boomphf::Mphf;
use debruijn::graph::{BaseGraph, DebruijnGraph};
use debruijn::{Exts, Kmer};
use serde_json::json;
use std::collections::BTreeSet;

/// drive one iterator by a random interleaving of next() and nth(n) against a model cursor
fn drive<K: Kmer, I: Iterator<Item = K> + ExactSizeIterator>(
    c: &mut Case,
    it: I,
    windows: &[S],
    what: &str,
) -> Result<(u64, u64, u64), String> {
    drive_rng::<K, I>(&c.rng, it, windows, what)
}

fn drive_rng<K: Kmer, I: Iterator<Item = K> + ExactSizeIterator>(
    rng: &crate::util::Rng,
    mut it: I,
    windows: &[S],
    what: &str,
) -> Result<(u64, u64, u64), String> {
    struct C2<'a> { rng: &'a crate::util::Rng }
    let c = C2 { rng };
    let total = windows.len();
    ensure!(it.len() == total, "{}: len() reports {} up front, the node has {} k-mers", what, it.len(), total);
    let (lo, hi) = it.size_hint();
    ensure!(lo == total && hi == Some(total), "{}: size_hint() = ({}, {:?}) up front, expected exactly {}", what, lo, hi, total);
    let mut cur = 0usize; // model cursor
    let mut log: Vec<String> = Vec::new();
    let mut calls = 0u64;
    let mut past_end_skips = 0u64;
    let mut long_skips = 0u64;
    let mut pulls_after_end = 0;
    let max_calls = total + 12;
    while calls < max_calls as u64 {
        let remaining = total - cur.min(total);
        let use_nth = c.rng.chance(1, 2);
        let (got, exp, desc): (Option<K>, Option<usize>, String) = if use_nth {
            let n = match c.rng.below(8) {
                0 => 0,
                1 => c.rng.below(5),
                2 => 5 + c.rng.below(8),
                3 => remaining.saturating_sub(1),
                4 => remaining,
                5 => remaining + 1 + c.rng.below(20),
                6 => match c.rng.below(4) {
                    0 => usize::MAX - c.rng.below(3),
                    // skips beyond 2^32 whose low 32 bits are a small (in-range looking) number
                    1 => (1usize << 32) + c.rng.below(remaining + 2),
                    2 => (1usize << 40) + c.rng.below(3),
                    _ => (1usize << 32) * (1 + c.rng.below(1000)) + c.rng.below(remaining + 1),
                },
                _ => c.rng.below(remaining + 2),
            };
            if n > 4 {
                long_skips += 1;
            }
            let exp = if n < remaining { Some(cur + n) } else { None };
            if exp.is_none() {
                past_end_skips += 1;
            }
            let g = it.nth(n);
            (g, exp, format!("nth({})", n))
        } else {
            let exp = if remaining > 0 { Some(cur) } else { None };
            (it.next(), exp, "next()".to_string())
        };
        calls += 1;
        log.push(desc.clone());
        match (got, exp) {
            (Some(g), Some(e)) => {
                ensure!(
                    kstr(&g) == windows[e],
                    "{}: after calls {:?} the iterator returned {:?}, the node's k-mer {} is {}",
                    what,
                    &log[log.len().saturating_sub(8)..],
                    g,
                    e,
                    ascii(&windows[e])
                );
                cur = e + 1;
            }
            (None, None) => {
                cur = total;
                pulls_after_end += 1;
                if pulls_after_end >= 4 {
                    break;
                }
            }
            (Some(g), None) => {
                return Err(format!(
                    "{}: after calls {:?} (cursor {}, {} k-mers) the iterator returned {:?} although it is past the node's last k-mer",
                    what,
                    &log[log.len().saturating_sub(8)..],
                    cur,
                    total,
                    g
                ));
            }
            (None, Some(e)) => {
                return Err(format!(
                    "{}: after calls {:?} the iterator ended, but k-mer {} of {} was due",
                    what,
                    &log[log.len().saturating_sub(8)..],
                    e,
                    total
                ));
            }
        }
    }
    Ok((calls, past_end_skips, long_skips))
}

fn graph_windows<K: Kmer, D: std::fmt::Debug>(g: &DebruijnGraph<K, D>) -> Vec<Vec<S>> {
    (0..g.len())
        .map(|i| g.get_node(i).sequence().bytes().windows(K::k()).map(|w| w.to_vec()).collect())
        .collect()
}

fn check_graph_iteration<K: Kmer + Send + Sync, D: std::fmt::Debug + Send + Sync + Clone>(
    c: &mut Case,
    g: &DebruijnGraph<K, D>,
    what: &str,
) -> Result<(), String> {
    let wins = graph_windows(g);
    let n_nodes = g.len();
    // plain iteration of every node, and of the whole graph
    let mut all: Vec<S> = Vec::new();
    let mut node_ids = Vec::new();
    for nk in g {
        node_ids.push(nk.node_id);
        let items: Vec<K> = nk.into_iter().collect();
        all.extend(items.iter().map(|x| kstr(x)));
    }
    ensure!(node_ids == (0..n_nodes).collect::<Vec<_>>(), "{}: iterating &graph visits nodes {:?}", what, node_ids);
    let flat: Vec<S> = wins.iter().flatten().cloned().collect();
    ensure!(all == flat, "{}: iterating all nodes does not visit every k-mer of the graph exactly once in order", what);
    let distinct: BTreeSet<&S> = flat.iter().collect();
    ensure!(distinct.len() == flat.len(), "harness: graph holds a k-mer twice");
    // random interleavings on every node (first, middle, last positions in the packed set all occur)
    let mut calls = 0;
    let mut past = 0;
    let mut long = 0;
    for node in 0..n_nodes {
        for _ in 0..2 {
            let it = g.get_node_kmer(node).into_iter();
            let (a, b, l) = drive::<K, _>(c, it, &wins[node], &format!("{} node {}/{} ({} k-mers)", what, node, n_nodes, wins[node].len()))?;
            calls += a;
            past += b;
            long += l;
        }
        if node + 1 == n_nodes {
            c.count("last_node_iterators_driven", 2);
        } else {
            c.count("non_last_node_iterators_driven", 2);
        }
    }
    c.count("iterator_calls", calls);
    c.count("skips_reaching_past_the_end", past);
    c.count("long_skips", long);
    // perfect hash over the iteration
    let n = flat.len() as u64;
    if n > 0 {
        let mphf: Mphf<K> = Mphf::from_chunked_iterator(1.7, g, n);
        let mut slots = BTreeSet::new();
        for w in &flat {
            let h = mphf.hash(&kfrom::<K>(w));
            ensure!(h < n, "{}: MPHF slot {} out of range 0..{}", what, h, n);
            ensure!(slots.insert(h), "{}: MPHF built from chunked iteration gives two graph k-mers slot {}", what, h);
        }
        c.count("mphf_serial_builds", 1);
        if !c.lane_miri || flat.len() < 40 {
            let threads = *c.rng.pick(&[2usize, 3, 8]);
            let mphf2: Mphf<K> = Mphf::from_chunked_iterator_parallel(1.7, g, None, n, threads);
            let mut slots = BTreeSet::new();
            for w in &flat {
                let h = mphf2.hash(&kfrom::<K>(w));
                ensure!(h < n && slots.insert(h), "{}: parallel chunked MPHF ({} threads) is not a bijection onto 0..{}", what, threads, n);
            }
            c.count("mphf_parallel_builds", 1);
        }
    }
    Ok(())
}

fn c18_case<K: Kmer + Send + Sync>(c: &mut Case, gc: &GCase) -> Result<(), String> {
    let k = K::k();
    let seqs = whole_reads(&gc.reads);
    let (g, _) = lib_direct::<K>(&seqs, gc.stranded, gc.thr);
    check_graph_iteration(c, &g, "graph from reads")?;
    // synthetic multi-node graph with long nodes (many k-mers per node, so long skips stay inside)
    let nn = c.rng.range(1, 5);
    let mut b: BaseGraph<K, u8> = BaseGraph::new(true);
    let mut seen: BTreeSet<S> = BTreeSet::new();
    let want_long = !c.lane_miri && k >= 16 && c.idx % 300 == 11;
    for ni in 0..nn {
        let len = k + if want_long && ni == 0 { c.count("graphs_with_node_of_more_than_65536_kmers", 1); 65_530 + c.rng.below(5000) } else { *c.rng.pick(&[0usize, 1, 4, 5, 6, 12, 30, 70]) };
        let s = c.rng.bases(len, 4);
        if s.windows(k).all(|w| !seen.contains(w)) && s.windows(k).collect::<BTreeSet<_>>().len() == len - k + 1 {
            for w in s.windows(k) {
                seen.insert(w.to_vec());
            }
            b.add(&s, Exts::empty(), 0u8);
        }
    }
    let g2 = b.finish_serial();
    check_graph_iteration(c, &g2, "synthetic graph")?;
    c.count("graphs", 2);
    c.count("nodes", (g.len() + g2.len()) as u64);
    if g.len() + g2.len() > 1 {
        c.nontrivial(H::new().u(gc.hash()).u(g2.len() as u64).get());
    }
    c.sample(|| gc.json());
    Ok(())
}

/// several threads iterate the SAME graph at the same time (what the parallel chunked MPHF builder
/// does), each with its own random next()/nth() interleaving incl. long skips; every item is checked
fn c18_concurrent<K: Kmer + Send + Sync>(c: &mut Case) -> Result<(), String> {
    let k = K::k();
    let nn = c.rng.range(2, 6);
    let mut b: BaseGraph<K, u8> = BaseGraph::new(true);
    let mut seen: BTreeSet<S> = BTreeSet::new();
    while b.len() < nn {
        let len = k + *c.rng.pick(&[16usize, 20, 31, 32, 33, 60, 100]);
        let s = c.rng.bases(len, 4);
        if s.windows(k).all(|w| !seen.contains(w)) && s.windows(k).collect::<BTreeSet<_>>().len() == len - k + 1 {
            for w in s.windows(k) {
                seen.insert(w.to_vec());
            }
            b.add(&s, Exts::empty(), 0u8);
        }
    }
    let g = b.finish_serial();
    let wins = graph_windows(&g);
    let nthreads = if c.lane_miri { 2 } else { *c.rng.pick(&[2usize, 4, 8]) };
    let rounds = if c.lane_miri { 2 } else { 40 };
    let seeds: Vec<u64> = (0..nthreads).map(|_| c.rng.next()).collect();
    let gref = &g;
    let wref = &wins;
    let results: Vec<Result<(u64, u64), String>> = std::thread::scope(|sc| {
        let hs: Vec<_> = seeds
            .iter()
            .map(|sd| {
                let sd = *sd;
                sc.spawn(move || {
                    let rng = crate::util::Rng::new(sd);
                    let mut calls = 0u64;
                    let mut long = 0u64;
                    for _ in 0..rounds {
                        let node = rng.below(gref.len());
                        let it = gref.get_node_kmer(node).into_iter();
                        let (a, _, l) = drive_rng::<K, _>(&rng, it, &wref[node], &format!("concurrent iteration, node {} ({} k-mers)", node, wref[node].len()))?;
                        calls += a;
                        long += l;
                    }
                    Ok((calls, long))
                })
            })
            .collect();
        hs.into_iter().map(|h| h.join().unwrap_or_else(|_| Err("iterator thread panicked".to_string()))).collect()
    });
    for r in results {
        let (calls, long) = r?;
        c.count("concurrent_iterator_calls", calls);
        c.count("concurrent_long_skips", long);
    }
    c.count("concurrent_iteration_cases", 1);
    c.nontrivial(H::new().u(c.idx).u(nn as u64).u(nthreads as u64).get());
    Ok(())
}

/// production-shaped use: a graph with thousands of nodes and ~10^5 k-mers handed to boomphf's chunked
/// constructors (serial and parallel), whose later rounds skip most items through nth()
fn c18_mphf_large(c: &mut Case) -> Result<(), String> {
    type K = Kmer24;
    let k = 24;
    let n_nodes = if c.lane_miri { 3 } else { c.rng.range(800, 2500) };
    let mut b: BaseGraph<K, u8> = BaseGraph::new(true);
    let mut flat: Vec<S> = Vec::new();
    for _ in 0..n_nodes {
        let len = k + *c.rng.pick(&[0usize, 1, 3, 4, 5, 20, 60, 150]);
        let s = c.rng.bases(len, 4);
        // K = 24 random windows are distinct with overwhelming probability; verified below
        flat.extend(s.windows(k).map(|w| w.to_vec()));
        b.add(&s, Exts::empty(), 0u8);
    }
    {
        let mut sorted = flat.clone();
        sorted.sort();
        sorted.dedup();
        if sorted.len() != flat.len() {
            return Ok(()); // (practically never) a repeated window: not a valid MPHF input
        }
    }
    let g = b.finish_serial();
    let n = flat.len() as u64;
    let threads = *c.rng.pick(&[2usize, 4, 8, 16]);
    for par in [false, true] {
        let mphf: Mphf<K> = if par {
            Mphf::from_chunked_iterator_parallel(1.7, &g, None, n, threads)
        } else {
            Mphf::from_chunked_iterator(1.7, &g, n)
        };
        let mut seen = vec![false; flat.len()];
        for w in &flat {
            let h = mphf.hash(&kfrom::<K>(w)) as usize;
            ensure!(h < flat.len(), "MPHF slot {} out of range 0..{}", h, n);
            ensure!(!seen[h], "chunked MPHF (parallel={}, {} threads) over {} nodes / {} k-mers gives two graph k-mers the same slot", par, threads, n_nodes, n);
            seen[h] = true;
        }
    }
    c.count("large_mphf_graphs", 1);
    c.count("large_mphf_kmers", n);
    c.nontrivial(H::new().u(n).u(c.idx).get());
    Ok(())
}

pub const RULE_C18: &str = "case = graph built from a hostile read set (direct pipeline) plus a synthetic multi-node graph with node lengths K..K+70; every node's iterator is driven twice by a random interleaving of next() and nth(n) with n in {0, 0-4, 5-12, remaining-1, remaining, remaining+1.., usize::MAX-ish, random} against a model cursor until 4 pulls after the end; checked: item == model window, None exactly when the model is exhausted, no Some after the end, len()/size_hint up front; iteration over &graph == all windows once in order; Mphf::from_chunked_iterator and _parallel (2,3,8 threads) are bijections; distinct = hash(read set, synthetic node count); non-trivial = more than one node";

pub fn run_c18(ctx: &Ctx) {
    let n = ctx.n(12_000, 600_000);
    ctx.run_group("iterate", n, false, |c| {
        let gc = gen_gcase(c);
        with_graph_k!(gc.kidx, K => c18_case::<K>(c, &gc))
    });
    ctx.run_group("concurrent", ctx.n(2_000, 100_000), false, |c| match c.rng.below(3) {
        0 => c18_concurrent::<Kmer8>(c),
        1 => c18_concurrent::<Kmer16>(c),
        _ => c18_concurrent::<Kmer32>(c),
    });
    if !ctx.is_miri() {
        ctx.run_group_t("mphf_large", ctx.n(40, 1000), false, 4, |c| c18_mphf_large(c));
    }
    if !ctx.is_miri() {
        ctx.require("large_mphf_kmers", 100_000);
        ctx.require("concurrent_long_skips", 1000);
        ctx.require("skips_reaching_past_the_end", 1000);
        ctx.require("graphs_with_node_of_more_than_65536_kmers", 3);
        ctx.require("long_skips", 1000);
        ctx.require("last_node_iterators_driven", 1000);
        ctx.require("non_last_node_iterators_driven", 1000);
        ctx.require("mphf_parallel_builds", 100);
    }
}
