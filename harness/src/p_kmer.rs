//! C10 (packed k-mers behave as length-K strings) and C11 (==, order, hash are those of the string).

use crate::ktypes::*;
use crate::model::*;
use crate::runner::{Case, Ctx};
use crate::util::{ascii, H};
use crate::{ensure, with_all_k};
use boomphf::hashmap::BoomHashMap;
use debruijn::{Dir, Exts, Kmer, Mer, MerImmut};
use serde::Serialize;
use serde_json::json;
use std::collections::hash_map::DefaultHasher;
use std::hash::{Hash, Hasher};

fn rank(s: &[u8]) -> u64 {
    s.iter().fold(0u64, |a, b| (a << 2) | *b as u64)
}

fn unrank(v: u64, k: usize) -> S {
    (0..k).map(|i| ((v >> (2 * (k - 1 - i))) & 3) as u8).collect()
}

/// pack `bases` into the uppermost bits of a u64; the bits below the run are `junk`
fn pack_run(bases: &[u8], junk: u64) -> u64 {
    let n = bases.len();
    let mut v: u64 = 0;
    for (i, b) in bases.iter().enumerate() {
        v |= (*b as u64) << (62 - 2 * i);
    }
    if n < 32 {
        let low_mask = (1u64 << (64 - 2 * n)) - 1;
        v |= junk & low_mask;
    }
    v
}

/// storage integer of a k-mer, read through its Serialize impl (no hook needed)
pub fn storage_of<K: Serialize>(x: &K) -> u128 {
    let s = serde_json::to_string(x).expect("serialize kmer");
    // {"storage":N} or {"storage":N,"phantom":null}
    let i = s.find("\"storage\":").expect("storage field") + 10;
    let digits: String = s[i..].chars().take_while(|c| c.is_ascii_digit()).collect();
    digits.parse::<u128>().expect("storage digits")
}

fn check_unused_lanes<K: Kmer + Serialize>(x: &K, what: &str) -> Result<(), String> {
    let k = K::k();
    let bits = std::mem::size_of::<K>() * 8;
    let st = storage_of(x);
    if 2 * k < bits && bits <= 128 {
        let high = st >> (2 * k);
        ensure!(
            high == 0,
            "after {}: storage {:#x} has bits set above the {} used lanes",
            what,
            st,
            k
        );
    }
    // and the used lanes spell the value
    let mut spelled = Vec::with_capacity(k);
    for i in 0..k {
        spelled.push(((st >> (2 * (k - 1 - i))) & 3) as u8);
    }
    ensure!(spelled == kstr(x), "after {}: storage lanes {} != bases read by get() {}", what, ascii(&spelled), ascii(&kstr(x)));
    Ok(())
}

fn hash_of<T: Hash>(x: &T) -> u64 {
    let mut h = DefaultHasher::new();
    x.hash(&mut h);
    h.finish()
}

/// every single-value operation of Mer/Kmer on value `s`, against the string model.
/// `full`: iterate all positions / bases / run lengths instead of sampling.
fn check_value<K: Kmer + Serialize>(c: &mut Case, s: &S, full: bool) -> Result<u64, String> {
    let k = K::k();
    let mut ops = 0u64;
    let x = K::from_bytes(s);
    ensure!(kstr(&x) == *s, "from_bytes({}) reads back as {}", ascii(s), ascii(&kstr(&x)));
    ensure!(x.len() == k && K::k() == k && (x.is_empty() == (k == 0)), "len/is_empty/k");
    check_unused_lanes(&x, "from_bytes")?;
    // longer input: only the first K bytes count
    {
        let mut longer = s.clone();
        longer.push(3);
        longer.push(1);
        ensure!(K::from_bytes(&longer) == x, "from_bytes on a longer slice");
    }
    let asc: Vec<u8> = s.iter().map(|b| b"ACGT"[*b as usize]).collect();
    let lower: Vec<u8> = s.iter().map(|b| b"acgt"[*b as usize]).collect();
    ensure!(K::from_ascii(&asc) == x, "from_ascii({}) != from_bytes", ascii(s));
    ensure!(K::from_ascii(&lower) == x, "from_ascii(lower case {}) != from_bytes", ascii(s));
    ensure!(Kmer::to_string(&x) == ascii(s), "to_string = {} for {}", Kmer::to_string(&x), ascii(s));
    ensure!(format!("{:?}", x) == ascii(s), "Debug = {:?} for {}", x, ascii(s));
    ensure!(x.iter().collect::<Vec<u8>>() == *s, "iter() != bases");
    ops += 8;
    if k <= 32 {
        ensure!(x.to_u64() == rank(s), "to_u64({}) = {}, rank is {}", ascii(s), x.to_u64(), rank(s));
        let y = K::from_u64(rank(s));
        ensure!(y == x && kstr(&y) == *s, "from_u64(rank {}) spells {}", rank(s), ascii(&kstr(&y)));
        ops += 2;
    } else {
        // K > 32: from_u64 gives leading A's
        let low = rank(&s[k - 32..]);
        let y = K::from_u64(low);
        let mut exp = vec![0u8; k - 32];
        exp.extend_from_slice(&s[k - 32..]);
        ensure!(kstr(&y) == exp, "from_u64 on K>32: {} expected {}", ascii(&kstr(&y)), ascii(&exp));
        ops += 1;
    }
    // rc / min_rc / palindrome
    let r = x.rc();
    let rs = rc(s);
    ensure!(kstr(&r) == rs, "rc({}) = {}, expected {}", ascii(s), ascii(&kstr(&r)), ascii(&rs));
    check_unused_lanes(&r, "rc")?;
    ensure!(r.rc() == x, "rc is not an involution on {}", ascii(s));
    let (mn, flip) = x.min_rc_flip();
    let exp_min = if *s < rs { s.clone() } else { rs.clone() };
    ensure!(kstr(&mn) == exp_min && kstr(&x.min_rc()) == exp_min, "min_rc({}) = {}", ascii(s), ascii(&kstr(&mn)));
    // for a k-mer equal to its reverse complement the flag carries no information (either value is fine)
    ensure!(flip == !(*s < rs) || *s == rs, "min_rc_flip flag for {}", ascii(s));
    ensure!(x.is_palindrome() == (*s == rs), "is_palindrome({}) = {}", ascii(s), x.is_palindrome());
    let at = s.iter().filter(|b| **b == 0 || **b == 3).count() as u32;
    ensure!(x.at_count() == at && x.gc_count() == k as u32 - at, "at_count/gc_count of {}: {} / {}", ascii(s), x.at_count(), x.gc_count());
    ops += 8;
    // get / set
    let positions: Vec<usize> = if full { (0..k).collect() } else { vec![0, k - 1, c.rng.below(k), c.rng.below(k)] };
    for &pos in &positions {
        ensure!(x.get(pos) == s[pos], "get({}) of {}", pos, ascii(s));
        let bases: Vec<u8> = if full { vec![0, 1, 2, 3] } else { vec![c.rng.base()] };
        for b in bases {
            let mut m = s.clone();
            m[pos] = b;
            let mut y = x;
            y.set_mut(pos, b);
            ensure!(kstr(&y) == m, "set_mut({}, {}) on {} gives {}", pos, b, ascii(s), ascii(&kstr(&y)));
            ensure!(y == K::from_bytes(&m), "set_mut({}, {}) on {}: not == from_bytes of the result", pos, b, ascii(s));
            let z = x.set(pos, b);
            ensure!(z == y, "MerImmut::set != set_mut");
            ops += 3;
        }
    }
    // extend
    for b in 0..4u8 {
        let el = x.extend_left(b);
        let er = x.extend_right(b);
        let ml = ext_str(s, L, b);
        let mr = ext_str(s, R, b);
        ensure!(kstr(&el) == ml, "extend_left({}) of {} = {}", b, ascii(s), ascii(&kstr(&el)));
        ensure!(kstr(&er) == mr, "extend_right({}) of {} = {}", b, ascii(s), ascii(&kstr(&er)));
        ensure!(el == K::from_bytes(&ml) && er == K::from_bytes(&mr), "extend result not == from_bytes of the same string ({} base {})", ascii(s), b);
        ensure!(x.extend(b, Dir::Left) == el && x.extend(b, Dir::Right) == er, "extend(dir)");
        check_unused_lanes(&el, "extend_left")?;
        check_unused_lanes(&er, "extend_right")?;
        ops += 6;
    }
    // get_extensions
    {
        let e = if full { 0xA5u8 } else { (c.rng.next() & 0xff) as u8 };
        for (side, dir) in [(L, Dir::Left), (R, Dir::Right)] {
            let gotk: Vec<K> = x.get_extensions(Exts::new(e), dir);
            let got: Vec<S> = gotk.iter().map(|y| kstr(y)).collect();
            let exp: Vec<S> = (0..4u8).filter(|b| e & bit(side, *b) != 0).map(|b| ext_str(s, side, b)).collect();
            ensure!(got == exp, "get_extensions({:#04x}, side {}) of {}", e, side, ascii(s));
            for (y, m) in gotk.iter().zip(exp.iter()) {
                ensure!(*y == K::from_bytes(m), "get_extensions({:#04x}, side {}) of {}: result spells {} but is != from_bytes of it", e, side, ascii(s), ascii(m));
                check_unused_lanes(y, "get_extensions")?;
            }
            ops += 1;
        }
    }
    // packed writes: run lengths 1..=min(32, K-pos)
    let runs: Vec<(usize, usize)> = if full {
        let mut v = Vec::new();
        for pos in 0..k {
            for n in 1..=(k - pos).min(32) {
                v.push((pos, n));
            }
        }
        v
    } else {
        let mut v = Vec::new();
        for _ in 0..6 {
            let pos = c.rng.below(k);
            let n = 1 + c.rng.below((k - pos).min(32));
            v.push((pos, n));
        }
        // boundary shapes
        v.push((0, k.min(32)));
        v.push((k - 1, 1));
        if k > 32 {
            v.push((k - 32, 32));
            v.push((0, 32));
            v.push((c.rng.below(k - 32 + 1), 32));
        }
        v
    };
    for (pos, n) in runs {
        let run: S = if full { (0..n).map(|i| ((pos + i * 3 + n) & 3) as u8).collect() } else { c.rng.bases(n, 4) };
        let mut m = s.clone();
        m[pos..pos + n].copy_from_slice(&run);
        for junk in [0u64, u64::MAX, 0x5A5A_5A5A_5A5A_5A5A] {
            let mut y = x;
            y.set_slice_mut(pos, n, pack_run(&run, junk));
            ensure!(
                kstr(&y) == m,
                "set_slice_mut(pos {}, n {}, junk {:#x}) on {}: got {}, expected {}",
                pos,
                n,
                junk,
                ascii(s),
                ascii(&kstr(&y)),
                ascii(&m)
            );
            ensure!(y == K::from_bytes(&m), "set_slice_mut(pos {}, n {}, junk {:#x}) on {}: result not == from_bytes", pos, n, junk, ascii(s));
            check_unused_lanes(&y, "set_slice_mut")?;
            ops += 3;
        }
        let z = x.set_slice(pos, n, pack_run(&run, 0));
        ensure!(kstr(&z) == m, "MerImmut::set_slice");
        ops += 1;
    }
    Ok(ops)
}

fn check_pair<K: Kmer>(a: &S, b: &S) -> Result<(), String> {
    let (x, y) = (K::from_bytes(a), K::from_bytes(b));
    let hd = a.iter().zip(b.iter()).filter(|(p, q)| p != q).count() as u32;
    ensure!(x.hamming_dist(y) == hd, "hamming_dist({}, {}) = {}, expected {}", ascii(a), ascii(b), x.hamming_dist(y), hd);
    ensure!(x.cmp(&y) == a.cmp(b), "cmp({}, {}) = {:?}, strings compare {:?}", ascii(a), ascii(b), x.cmp(&y), a.cmp(b));
    ensure!((x == y) == (a == b), "== of {} and {}", ascii(a), ascii(b));
    ensure!(x.partial_cmp(&y) == Some(a.cmp(b)), "partial_cmp");
    Ok(())
}

fn boundary_value(c: &mut Case, k: usize) -> S {
    match c.rng.below(10) {
        0 => vec![0; k],
        1 => vec![3; k],
        2 => {
            let mut v = vec![0; k];
            v[c.rng.below(k)] = 1 + c.rng.below(3) as u8;
            v
        }
        3 => (0..k).map(|i| if i % 2 == 0 { 1 } else { 2 }).collect(),
        4 => {
            let mut v = vec![0; k];
            v[0] = 3;
            v
        }
        5 => {
            let mut v = vec![0; k];
            v[k - 1] = 3;
            v
        }
        6 => {
            // palindrome (even k) or near-palindrome
            let h = c.rng.bases(k / 2, 4);
            let mut v = h.clone();
            if k % 2 == 1 {
                v.push(c.rng.base());
            }
            v.extend(rc(&h));
            v
        }
        _ => c.rng.bases(k, 4),
    }
}

fn c10_bulk<K: Kmer>(c: &mut Case) -> Result<(), String> {
    let k = K::k();
    for n in [0usize, k.saturating_sub(1), k, k + 1, k + c.rng.below(40)] {
        let s = c.rng.bases(n, 4);
        let got: Vec<S> = K::kmers_from_bytes(&s).iter().map(|x| kstr(x)).collect();
        let exp: Vec<S> = if n >= k { s.windows(k).map(|w| w.to_vec()).collect() } else { vec![] };
        ensure!(got == exp, "kmers_from_bytes on length {}", n);
        let asc: Vec<u8> = s.iter().map(|b| if c.rng.chance(1, 2) { b"ACGT"[*b as usize] } else { b"acgt"[*b as usize] }).collect();
        let got: Vec<S> = K::kmers_from_ascii(&asc).iter().map(|x| kstr(x)).collect();
        ensure!(got == exp, "kmers_from_ascii on length {}", n);
    }
    Ok(())
}

fn c10_random<K: Kmer + Serialize>(c: &mut Case) -> Result<(), String> {
    let k = K::k();
    let s = boundary_value(c, k);
    let ops = check_value::<K>(c, &s, false)?;
    let t = boundary_value(c, k);
    check_pair::<K>(&s, &t)?;
    let mut u = s.clone();
    let pidx = c.rng.below(k);
    u[pidx] = (u[pidx] + 1) & 3;
    check_pair::<K>(&s, &u)?;
    check_pair::<K>(&s, &s)?;
    if c.idx % 16 == 0 {
        c10_bulk::<K>(c)?;
    }
    c.count("operations_checked", ops + 12);
    c.count("values_checked", 1);
    c.nontrivial(H::new().u(k as u64).b(&s).get());
    c.sample(|| json!({"K": k, "value": ascii(&s), "ops": ops}));
    Ok(())
}

/// exhaustive: chunk `chunk` of the value space of K (K <= 8)
fn c10_exhaustive<K: Kmer + Serialize>(c: &mut Case, chunk: u64, nchunks: u64) -> Result<(), String> {
    let k = K::k();
    let total = 1u64 << (2 * k);
    let lo = total * chunk / nchunks;
    let hi = total * (chunk + 1) / nchunks;
    let mut ops = 0;
    for v in lo..hi {
        let s = unrank(v, k);
        ops += check_value::<K>(c, &s, true)?;
        // pairs: neighbours in rank order, the complement pattern and a pseudo-random partner
        for w in [v.wrapping_add(1) % total, (total - 1) ^ v, (v.wrapping_mul(0x9E37_79B9) >> 3) % total] {
            check_pair::<K>(&s, &unrank(w, k))?;
            ops += 4;
        }
    }
    c.count("operations_checked", ops);
    c.count("values_checked", hi - lo);
    c.count("values_checked_exhaustively", hi - lo);
    c.nontrivial(H::new().u(k as u64).u(chunk).get());
    Ok(())
}

pub const RULE_C10: &str = "exhaustive groups: every value of Kmer2/3/4/5/6/8 x every position x every base x every (pos, run length) packed write x 3 junk patterns below the run x every op (from_bytes/ascii/u64, to_u64, get, set, set_slice, extend l/r, rc, min_rc, is_palindrome, at/gc, to_string, Debug, iter, get_extensions, hamming, cmp); sampled group: the other 13 types with boundary-pattern biased values (all-A, all-T, single base, alternating, top/bottom lane only, palindromes) and random positions/runs incl. 32-base runs at every alignment for K>32; distinct = hash(K, value); every sampled value is counted non-trivial (each exercises >= 60 model comparisons)";

pub fn run_c10(ctx: &Ctx) {
    // exhaustive part: K <= 8
    if !ctx.is_miri() {
        for (idx, name, chunks) in [(0usize, "Kmer2", 1u64), (1, "Kmer3", 1), (2, "Kmer4", 4), (3, "Kmer5", 16), (4, "Kmer6", 64), (5, "Kmer8", 512)] {
            let g = format!("exhaustive_{}", name);
            ctx.run_group(&g, chunks, true, |c| {
                let chunk = c.idx;
                with_all_k!(idx, K => c10_exhaustive::<K>(c, chunk, chunks))
            });
        }
    }
    let per_type = ctx.n(60_000, 3_000_000);
    ctx.run_group("sampled", per_type * 19, false, |c| {
        let idx = (c.idx % 19) as usize;
        with_all_k!(idx, K => c10_random::<K>(c))
    });
    if !ctx.is_miri() {
        ctx.require("values_checked_exhaustively", 16 + 64 + 256 + 1024 + 4096 + 65536);
    }
}

// ---------------------------------------------------------------------------------------------
// C11
// ---------------------------------------------------------------------------------------------

fn c11_step<K: Kmer + Serialize>(c: &mut Case, x: &mut K, m: &mut S) -> &'static str {
    let k = K::k();
    match c.rng.below(11) {
        0 => {
            let b = c.rng.base();
            *x = x.extend_left(b);
            *m = ext_str(m, L, b);
            "extend_left"
        }
        1 => {
            let b = c.rng.base();
            *x = x.extend_right(b);
            *m = ext_str(m, R, b);
            "extend_right"
        }
        2 => {
            *x = x.rc();
            *m = rc(m);
            "rc"
        }
        3 => {
            let (p, b) = (c.rng.below(k), c.rng.base());
            x.set_mut(p, b);
            m[p] = b;
            "set_mut"
        }
        4 | 5 => {
            let pos = c.rng.below(k);
            let n = 1 + c.rng.below((k - pos).min(32));
            let run = c.rng.bases(n, 4);
            let junk = if c.rng.chance(1, 2) { c.rng.next() } else { 0 };
            x.set_slice_mut(pos, n, pack_run(&run, junk));
            m[pos..pos + n].copy_from_slice(&run);
            "set_slice_mut"
        }
        6 => {
            *x = x.min_rc();
            let r = rc(m);
            if r < *m {
                *m = r;
            }
            "min_rc"
        }
        7 => {
            *m = boundary_value(c, k);
            *x = K::from_ascii(&m.iter().map(|b| b"ACGT"[*b as usize]).collect::<Vec<u8>>());
            "from_ascii"
        }
        8 => {
            if k <= 32 {
                *m = c.rng.bases(k, 4);
                *x = K::from_u64(rank(m));
                "from_u64"
            } else {
                let (p, b) = (c.rng.below(k), c.rng.base());
                *x = x.set(p, b);
                m[p] = b;
                "set"
            }
        }
        9 => {
            let (mn, _) = x.min_rc_flip();
            *x = mn;
            let r = rc(m);
            if r < *m {
                *m = r;
            }
            "min_rc_flip"
        }
        _ => {
            // one of the k-mers produced by get_extensions
            let e = ((c.rng.next() & 0xff) as u8) | 0x11;
            let (side, dir) = if c.rng.chance(1, 2) { (L, Dir::Left) } else { (R, Dir::Right) };
            let v = x.get_extensions(Exts::new(e), dir);
            let bases: Vec<u8> = (0..4u8).filter(|b| e & bit(side, *b) != 0).collect();
            let i = c.rng.below(v.len());
            *x = v[i];
            *m = ext_str(m, side, bases[i]);
            "get_extensions"
        }
    }
}

fn c11_case<K: Kmer + Serialize + Send + Sync>(c: &mut Case) -> Result<(), String> {
    let k = K::k();
    let nvals = 2 + c.rng.below(10);
    let mut vals: Vec<(K, S)> = Vec::new();
    let mut steps = 0u64;
    for vi in 0..nvals {
        let mut m = if vi > 0 && c.rng.chance(1, 3) { vals[c.rng.below(vi)].1.clone() } else { boundary_value(c, k) };
        let mut x = K::from_bytes(&m);
        let mut hist: Vec<&'static str> = vec!["from_bytes"];
        for _ in 0..c.rng.range(1, 12) {
            let op = c11_step::<K>(c, &mut x, &mut m);
            hist.push(op);
            steps += 1;
            let fresh = K::from_bytes(&m);
            let ok = x == fresh
                && x.cmp(&fresh) == std::cmp::Ordering::Equal
                && hash_of(&x) == hash_of(&fresh)
                && kstr(&x) == m;
            if !ok {
                return Err(format!(
                    "K={} history {:?} spells {} (model {}), but ==/cmp/hash against from_bytes of that string: eq={} cmp={:?} hash_eq={}; storage {:#x} vs {:#x}",
                    k,
                    hist,
                    ascii(&kstr(&x)),
                    ascii(&m),
                    x == fresh,
                    x.cmp(&fresh),
                    hash_of(&x) == hash_of(&fresh),
                    storage_of(&x),
                    storage_of(&fresh)
                ));
            }
            check_unused_lanes(&x, op).map_err(|e| format!("K={} history {:?}: {}", k, hist, e))?;
        }
        vals.push((x, m));
    }
    // structurally related values (half swaps, rotations by 32 bases, one base moved between the
    // first and the last K-32 bases): distinct strings that a folding hash would confuse
    if k >= 4 {
        let base = vals[0].1.clone();
        let mut rel: Vec<S> = Vec::new();
        let mut sw = base[k / 2..].to_vec();
        sw.extend_from_slice(&base[..k / 2]);
        rel.push(sw);
        if k > 32 {
            let mut rot = base[32..].to_vec();
            rot.extend_from_slice(&base[..32]);
            rel.push(rot);
            let mut a = base.clone();
            let mut b = base.clone();
            let p = c.rng.below(k - 32);
            a[p] = (a[p] + 1) & 3;
            b[p + 32] = (b[p + 32] + 1) & 3;
            rel.push(a);
            rel.push(b);
        }
        let period = *c.rng.pick(&[1usize, 2, 4, 8, 16]);
        let unit = c.rng.bases(period, 4);
        rel.push((0..k).map(|i| unit[i % period]).collect());
        for r in rel {
            vals.push((K::from_bytes(&r), r));
        }
    }
    // pairwise order
    for i in 0..vals.len() {
        for j in 0..vals.len() {
            ensure!(
                vals[i].0.cmp(&vals[j].0) == vals[i].1.cmp(&vals[j].1),
                "cmp({}, {}) = {:?}, strings compare {:?}",
                ascii(&vals[i].1),
                ascii(&vals[j].1),
                vals[i].0.cmp(&vals[j].0),
                vals[i].1.cmp(&vals[j].1)
            );
            ensure!((vals[i].0 == vals[j].0) == (vals[i].1 == vals[j].1), "== disagrees with string equality");
            if vals[i].1 == vals[j].1 {
                ensure!(hash_of(&vals[i].0) == hash_of(&vals[j].0), "equal strings hash differently");
            } else {
                // "hash equal exactly when they spell the same string": a 64-bit SipHash collision
                // between two of a handful of strings has probability ~2^-64 per pair
                ensure!(
                    hash_of(&vals[i].0) != hash_of(&vals[j].0),
                    "different strings {} and {} feed identical data to the hasher (same DefaultHasher digest)",
                    ascii(&vals[i].1),
                    ascii(&vals[j].1)
                );
                c.count("distinct_pairs_hash_compared", 1);
            }
        }
    }
    // sort / dedup / binary search / group / perfect-hash lookup agree with the same on strings
    let mut ks: Vec<K> = vals.iter().map(|v| v.0).collect();
    let mut ss: Vec<S> = vals.iter().map(|v| v.1.clone()).collect();
    ks.sort();
    ss.sort();
    ensure!(ks.iter().map(|x| kstr(x)).collect::<Vec<_>>() == ss, "sort order of k-mers != sort order of strings");
    ks.dedup();
    ss.dedup();
    ensure!(ks.len() == ss.len(), "dedup keeps {} k-mers, {} distinct strings", ks.len(), ss.len());
    for (v, m) in &vals {
        let a = ks.binary_search(v).ok();
        let b = ss.binary_search(m).ok();
        ensure!(a == b, "binary_search({}) = {:?}, on strings {:?}", ascii(m), a, b);
    }
    let absent = c.rng.bases(k, 4);
    ensure!(ks.binary_search(&K::from_bytes(&absent)).is_ok() == ss.binary_search(&absent).is_ok(), "binary_search of a random k-mer");
    if !c.lane_miri || c.idx % 8 == 0 {
        let values: Vec<u32> = (0..ks.len() as u32).collect();
        let map = BoomHashMap::new(ks.clone(), values);
        for (v, m) in &vals {
            // a k-mer reached by one history must find the entry inserted under another
            let got = map.get(v).map(|i| kstr(map.get_key((*i) as usize).unwrap_or(v)));
            ensure!(got.is_some(), "perfect-hash lookup of {} (built by a different history) fails", ascii(m));
        }
        ensure!(map.get(&K::from_bytes(&absent)).is_some() == ss.binary_search(&absent).is_ok(), "perfect-hash lookup of an absent k-mer");
        c.count("mphf_lookups", vals.len() as u64 + 1);
    }
    c.count("histories", nvals as u64);
    c.count("history_steps", steps);
    c.count("pairs_compared", (vals.len() * vals.len()) as u64);
    let mut h = H::new();
    h.u(k as u64);
    for v in &vals {
        h.b(&v.1);
    }
    c.nontrivial(h.get());
    c.sample(|| json!({"K": k, "final_values": vals.iter().map(|v| ascii(&v.1)).collect::<Vec<_>>()}));
    Ok(())
}

pub const RULE_C11: &str = "case = 2-11 values of one K type, each produced by a random operation history of 1-12 steps from {extend_left, extend_right, rc, set_mut, packed set_slice_mut with and without junk bits, min_rc, min_rc_flip, from_ascii, from_u64 (K<=32), MerImmut::set}; after EVERY step ==, cmp, DefaultHasher and the serde-visible storage (unused lanes zero) are compared with K::from_bytes of the model string; then all pairs for order/equality/hash, and sort/dedup/binary_search/BoomHashMap lookup against the same operations on strings; all 19 types; distinct = hash(K, final strings)";

pub fn run_c11(ctx: &Ctx) {
    let per_type = ctx.n(100_000, 5_000_000);
    ctx.run_group("histories", per_type * 19, false, |c| {
        let idx = (c.idx % 19) as usize;
        with_all_k!(idx, K => c11_case::<K>(c))
    });
    if !ctx.is_miri() {
        ctx.require("history_steps", 100_000);
        ctx.require("mphf_lookups", 10_000);
    }
}
