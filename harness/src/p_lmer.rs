//! C17: fixed-size DNA strings (Lmer) behave as strings.

use crate::ktypes::*;
use crate::model::*;
use crate::runner::{Case, Ctx, Tier};
use crate::util::{ascii, H};
use crate::ensure;
use debruijn::vmer::{Lmer, Lmer1, Lmer2, Lmer3};
use debruijn::{Kmer, Mer, Vmer};
use serde_json::json;
use std::collections::hash_map::DefaultHasher;
use std::fmt::Debug;
use std::hash::{Hash, Hasher};

type Lmer4 = Lmer<[u64; 4]>;
type Lmer5 = Lmer<[u64; 5]>;
type Lmer6 = Lmer<[u64; 6]>;

fn hash_of<T: Hash>(x: &T) -> u64 {
    let mut h = DefaultHasher::new();
    x.hash(&mut h);
    h.finish()
}

fn pack_run(bases: &[u8]) -> u64 {
    let mut v: u64 = 0;
    for (i, b) in bases.iter().enumerate() {
        v |= (*b as u64) << (62 - 2 * i);
    }
    v
}

fn check_lmer<V: Vmer + Hash + Debug + Clone>(name: &str, x: &V, m: &[u8], what: &str) -> Result<(), String> {
    ensure!(
        x.len() == m.len(),
        "{} after {}: len() = {} but the string was created with length {}",
        name,
        what,
        x.len(),
        m.len()
    );
    ensure!(x.is_empty() == m.is_empty(), "{} after {}: is_empty", name, what);
    for (i, b) in m.iter().enumerate() {
        ensure!(
            x.get(i) == *b,
            "{} after {}: base {} reads {}, expected {} (model {})",
            name,
            what,
            i,
            x.get(i),
            b,
            ascii(m)
        );
    }
    // equality and hashing agree with the plain string: compare with a value built base by base
    let fresh = V::from_slice(m);
    ensure!(*x == fresh, "{} after {}: != the string built base-by-base from the same bases {}", name, what, ascii(m));
    ensure!(hash_of(x) == hash_of(&fresh), "{} after {}: hash differs from the string built base-by-base", name, what);
    ensure!(format!("{:?}", x) == ascii(m), "{} after {}: Debug", name, what);
    ensure!(x.iter().collect::<Vec<u8>>() == m, "{} after {}: iter()", name, what);
    Ok(())
}

fn lmer_kmers<V: Vmer, K: Kmer>(name: &str, x: &V, m: &[u8]) -> Result<(), String> {
    let k = K::k();
    let items: Vec<K> = x.iter_kmers().collect();
    let nk = (m.len() + 1).saturating_sub(k);
    ensure!(items.len() == nk, "{}: iter_kmers::<K={}> yields {} items, expected {}", name, k, items.len(), nk);
    for i in 0..nk {
        let g: K = x.get_kmer(i);
        ensure!(kstr(&g) == m[i..i + k] && items[i] == g, "{}: k-mer {} (K={}) of {} is {:?}", name, i, k, ascii(m), g);
    }
    Ok(())
}

/// one write (pos, run) on a string of length `len` filled with `fill`
fn write_case<V: Vmer + Hash + Debug + Clone>(name: &str, fill: &[u8], pos: usize, run: &[u8]) -> Result<(), String> {
    let mut x = V::from_slice(fill);
    let mut m = fill.to_vec();
    let n = run.len();
    x.set_slice_mut(pos, n, pack_run(run));
    m[pos..pos + n].copy_from_slice(run);
    check_lmer(name, &x, &m, &format!("set_slice_mut(pos {}, n {}) on a length-{} string", pos, n, fill.len()))
}

fn fill_pattern(kind: usize, len: usize, c: &mut Case) -> S {
    match kind {
        0 => vec![0; len],
        1 => vec![3; len],
        2 => (0..len).map(|i| (i % 4) as u8).collect(),
        3 => (0..len).map(|i| ((i / 3 + 1) % 4) as u8).collect(),
        _ => c.rng.bases(len, 4),
    }
}

/// exhaustive grid for one capacity and one length: every (pos, run <= 32) with pos + run <= len
fn c17_grid<V: Vmer + Hash + Debug + Clone>(name: &str, c: &mut Case, len: usize) -> Result<(), String> {
    // creation
    let z = V::new(len);
    check_lmer(name, &z, &vec![0; len], &format!("new({})", len))?;
    let mut writes = 0u64;
    for kind in 0..3 {
        let fill = fill_pattern(kind, len, c);
        let x = V::from_slice(&fill);
        check_lmer(name, &x, &fill, "from_slice")?;
        // single-base writes: every position
        for p in 0..len {
            for b in [0u8, 3, (fill[p] + 1) & 3] {
                let mut y = x.clone();
                y.set_mut(p, b);
                let mut m = fill.clone();
                m[p] = b;
                check_lmer(name, &y, &m, &format!("set_mut({}, {}) on a length-{} string", p, b, len))?;
                writes += 1;
            }
        }
        for pos in 0..len {
            for n in 1..=(len - pos).min(32) {
                let run: S = (0..n).map(|i| (3 - fill[pos + i]).wrapping_add((i % 2) as u8) & 3).collect();
                write_case::<V>(name, &fill, pos, &run)?;
                writes += 1;
            }
        }
        // rc and k-mers
        let r = x.rc();
        check_lmer(name, &r, &rc(&fill), &format!("rc() of a length-{} string", len))?;
        lmer_kmers::<V, Kmer3>(name, &x, &fill)?;
        lmer_kmers::<V, Kmer16>(name, &x, &fill)?;
        lmer_kmers::<V, Kmer31>(name, &x, &fill)?;
        lmer_kmers::<V, Kmer40>(name, &x, &fill)?;
    }
    c.count("grid_writes", writes);
    c.count("grid_lengths", 1);
    c.nontrivial(H::new().b(name.as_bytes()).u(len as u64).get());
    Ok(())
}

fn c17_random<V: Vmer + Hash + Debug + Clone>(name: &str, c: &mut Case) -> Result<(), String> {
    let max = V::max_len();
    let len = match c.rng.below(4) {
        0 => max,
        1 => max - c.rng.below(max.min(5) + 0).min(max),
        2 => c.rng.below(max + 1),
        _ => *c.rng.pick(&[0usize, 1, 31, 32, 33, 63, 64, 65]).min(&max),
    };
    let mut m = c.rng.bases(len, 4);
    let mut x = V::from_slice(&m);
    let mut hist = vec![format!("from_slice(len {})", len)];
    check_lmer(name, &x, &m, "from_slice")?;
    let steps = c.rng.range(1, 10);
    for _ in 0..steps {
        if len == 0 {
            break;
        }
        match c.rng.below(4) {
            0 => {
                let (p, b) = (c.rng.below(len), c.rng.base());
                x.set_mut(p, b);
                m[p] = b;
                hist.push(format!("set_mut({},{})", p, b));
            }
            1 | 2 => {
                let pos = c.rng.below(len);
                // bias: runs crossing a word boundary, runs touching the last word
                let n = match c.rng.below(3) {
                    0 => 1 + c.rng.below((len - pos).min(32)),
                    1 => (len - pos).min(32),
                    _ => ((32 - pos % 32) + c.rng.below(8) + 1).min(len - pos).min(32).max(1),
                };
                let run = c.rng.bases(n, 4);
                x.set_slice_mut(pos, n, pack_run(&run));
                m[pos..pos + n].copy_from_slice(&run);
                hist.push(format!("set_slice_mut({},{})", pos, n));
            }
            _ => {
                x = x.rc();
                m = rc(&m);
                hist.push("rc".into());
            }
        }
        check_lmer(name, &x, &m, &format!("history {:?}", hist))?;
    }
    lmer_kmers::<V, Kmer5>(name, &x, &m)?;
    lmer_kmers::<V, Kmer20>(name, &x, &m)?;
    lmer_kmers::<V, Kmer32>(name, &x, &m)?;
    lmer_kmers::<V, Kmer64>(name, &x, &m)?;
    // order: derived Ord is on storage; only equality/hash are claimed. Equality with an unequal string:
    if len > 0 {
        let mut o = m.clone();
        let p = c.rng.below(len);
        o[p] = (o[p] + 1) & 3;
        ensure!(x != V::from_slice(&o), "{}: equal to a string differing at base {}", name, p);
    }
    if len < max {
        let mut longer = m.clone();
        longer.push(0);
        ensure!(x != V::from_slice(&longer), "{}: a string equals its extension by one A", name);
    }
    c.count("histories", 1);
    c.count("history_steps", steps as u64);
    c.count("strings_at_max_len", (len == max) as u64);
    c.nontrivial(H::new().b(name.as_bytes()).b(&m).u(hist.len() as u64).get());
    c.sample(|| json!({"type": name, "history": hist, "final": ascii(&m)}));
    Ok(())
}

pub const RULE_C17: &str = "exhaustive grid for Lmer1, Lmer2, Lmer3: every length 0..=max_len x 3 fill patterns x every single-base write position x every packed write (pos, run 1..=32, pos+run <= len) + new(len), rc, k-mer extraction with K=3,16,31,40; after every write: stored length, every base, ==/Hash/Debug/iter against the string built base by base. Sampled histories for all six capacities (1-6 words; lengths at and near max_len, block boundaries) of set_mut / set_slice_mut (runs crossing word boundaries and touching the length-byte word) / rc; distinct = hash(type, final value, history length)";

pub fn run_c17(ctx: &Ctx) {
    if !ctx.is_miri() {
        ctx.run_group("grid_Lmer1", Lmer1::max_len() as u64 + 1, true, |c| c17_grid::<Lmer1>("Lmer1", c, c.idx as usize));
        ctx.run_group("grid_Lmer2", Lmer2::max_len() as u64 + 1, true, |c| c17_grid::<Lmer2>("Lmer2", c, c.idx as usize));
        if ctx.tier == Tier::Thorough {
            ctx.run_group("grid_Lmer3", Lmer3::max_len() as u64 + 1, true, |c| c17_grid::<Lmer3>("Lmer3", c, c.idx as usize));
        } else {
            // quick: every fourth length plus the top of the range
            ctx.run_group("grid_Lmer3_sub", Lmer3::max_len() as u64 + 1, false, |c| {
                let len = c.idx as usize;
                if len % 4 == 0 || len + 6 > Lmer3::max_len() { c17_grid::<Lmer3>("Lmer3", c, len) } else { Ok(()) }
            });
        }
    }
    let n = ctx.n(150_000, 7_500_000);
    ctx.run_group("histories", n * 6, false, |c| match c.idx % 6 {
        0 => c17_random::<Lmer1>("Lmer1", c),
        1 => c17_random::<Lmer2>("Lmer2", c),
        2 => c17_random::<Lmer3>("Lmer3", c),
        3 => c17_random::<Lmer4>("Lmer4", c),
        4 => c17_random::<Lmer5>("Lmer5", c),
        _ => c17_random::<Lmer6>("Lmer6", c),
    });
    if !ctx.is_miri() {
        ctx.require("grid_writes", 100_000);
        ctx.require("strings_at_max_len", 1000);
    }
}
