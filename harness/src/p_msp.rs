//! C07 (minimizer partition clauses) and C08 (shard assignment is a pure strand-symmetric function).

use crate::ktypes::*;
use crate::model::*;
use crate::runner::{Case, Ctx};
use crate::util::{ascii, fnv, H};
use crate::ensure;
use debruijn::dna_string::DnaString;
use debruijn::msp::{msp_sequence, simple_scan, Scanner};
use debruijn::vmer::{Lmer1, Lmer2, Lmer3};
use debruijn::{DnaBytes, DnaSlice, Kmer, Mer, Vmer};
use serde_json::json;
use std::cell::Cell;
use std::collections::HashMap;

#[derive(Clone, Copy, Debug)]
enum ScoreKind {
    Lex,
    Const,
    Mod3,
    Hash64,
    AtCount,
    Perm,
    PermRcMin,
    Big, // scores >= 2^32
}

fn score_of(kind: ScoreKind, pm: &[u8], perm: &[usize], salt: u64) -> usize {
    let rank = |s: &[u8]| s.iter().fold(0usize, |a, b| (a << 2) | *b as usize);
    match kind {
        ScoreKind::Lex => rank(pm),
        ScoreKind::Const => 7,
        ScoreKind::Mod3 => rank(pm) % 3,
        ScoreKind::Hash64 => (fnv(pm) ^ salt) as usize,
        ScoreKind::AtCount => pm.iter().filter(|b| **b == 0 || **b == 3).count(),
        ScoreKind::Perm => perm[rank(pm) % perm.len()],
        ScoreKind::PermRcMin => perm[rank(pm) % perm.len()].min(perm[rank(&rc(pm)) % perm.len()]),
        ScoreKind::Big => ((fnv(pm) ^ salt) as usize % 5) << 33 | (rank(pm) % 2),
    }
}

struct Interval {
    start: usize,
    len: usize,
    pos: usize,
    minimizer: S,
}

/// the clauses of C07 on plain strings, with an independent score evaluation
fn check_clauses(seq: &[u8], k: usize, p: usize, ivs: &[Interval], score: &dyn Fn(&[u8]) -> usize) -> Result<u64, String> {
    let m = seq.len();
    ensure!(!ivs.is_empty(), "no interval returned");
    ensure!(ivs[0].start == 0, "first interval starts at {}", ivs[0].start);
    let mut ties = 0u64;
    for (j, iv) in ivs.iter().enumerate() {
        ensure!(
            iv.len >= k && iv.len <= 2 * k - p,
            "interval {} has length {} outside [k={}, 2k-p={}]",
            j,
            iv.len,
            k,
            2 * k - p
        );
        ensure!(iv.start + iv.len <= m, "interval {} runs past the sequence", j);
        ensure!(iv.pos + p <= m, "minimizer position {} out of range", iv.pos);
        ensure!(
            seq[iv.pos..iv.pos + p] == iv.minimizer[..],
            "interval {}: reported minimizer {} is not the p-mer at its position {} ({})",
            j,
            ascii(&iv.minimizer),
            iv.pos,
            ascii(&seq[iv.pos..iv.pos + p])
        );
        // inside every k-mer of the interval
        let last_kmer_start = iv.start + iv.len - k;
        ensure!(
            iv.pos >= last_kmer_start && iv.pos + p <= iv.start + k,
            "interval {} [{}..{}): minimizer at {} is not inside every k-mer of the interval",
            j,
            iv.start,
            iv.start + iv.len,
            iv.pos
        );
        // minimum score among all p-mers of the interval
        let ms = score(&iv.minimizer);
        for q in iv.start..=(iv.start + iv.len - p) {
            let s = score(&seq[q..q + p]);
            ensure!(
                s >= ms,
                "interval {} [{}..{}): p-mer {} at {} scores {} < minimizer {} score {}",
                j,
                iv.start,
                iv.start + iv.len,
                ascii(&seq[q..q + p]),
                q,
                s,
                ascii(&iv.minimizer),
                ms
            );
            if s == ms && q != iv.pos {
                ties += 1;
            }
        }
        if j + 1 < ivs.len() {
            let nx = &ivs[j + 1];
            ensure!(nx.start > iv.start, "intervals not in start order at {}", j);
            ensure!(
                iv.start + iv.len == nx.start + k - 1,
                "intervals {} and {} overlap by {} bases, not k-1 = {}",
                j,
                j + 1,
                (iv.start + iv.len) as i64 - nx.start as i64,
                k - 1
            );
            // never ends while the next k-mer still contains the minimizer and brings no strictly better p-mer
            let still_inside = iv.pos >= nx.start;
            let entering = &seq[nx.start + k - p..nx.start + k];
            let better = score(entering) < ms;
            ensure!(
                !(still_inside && !better),
                "interval {} [{}..{}) ends although the next k-mer (start {}) still contains the minimizer at {} and the entering p-mer {} (score {}) is not better than {}",
                j,
                iv.start,
                iv.start + iv.len,
                nx.start,
                iv.pos,
                ascii(entering),
                score(entering),
                ms
            );
        } else {
            ensure!(iv.start + iv.len == m, "last interval ends at {} != sequence length {}", iv.start + iv.len, m);
        }
    }
    Ok(ties)
}

fn scan_with<V: Vmer, P: Kmer>(v: &V, k: usize, score: &dyn Fn(&[u8]) -> usize, calls: &Cell<u64>) -> Vec<Interval> {
    let f = |pm: &P| {
        calls.set(calls.get() + 1);
        score(&kstr(pm))
    };
    let sc = Scanner::new(v, f, k);
    sc.scan()
        .into_iter()
        .map(|iv| Interval {
            start: iv.start as usize,
            len: iv.len as usize,
            pos: iv.minimizer_pos as usize,
            minimizer: kstr(&iv.minimizer),
        })
        .collect()
}

fn c07_p<P: Kmer>(c: &mut Case) -> Result<(), String> {
    let p = P::k();
    // k - p >= 256 rarely: windows of several hundred p-mers (algorithm-switch thresholds)
    let wide = c.rng.chance(1, 60);
    let k = if wide { p + c.rng.range(250, 400) } else if c.rng.chance(1, 6) { p } else { p + c.rng.below(41) };
    if wide { c.count("scans_with_window_of_250_or_more_pmers", 1); }
    let alpha = *c.rng.pick(&[1usize, 2, 2, 3, 4, 4]);
    let m = if c.rng.chance(1, 5) { k + c.rng.below(3) } else if wide { k + c.rng.below(k + 40) } else { k + c.rng.below(4 * k + 4) };
    let mut seq: S = c.rng.bases(m, alpha);
    if c.rng.chance(1, 4) {
        // tandem repeat: the minimizer recurs inside one window
        let u = c.rng.bases(c.rng.range(1, p + 2), 4);
        for i in 0..m {
            if c.rng.chance(9, 10) {
                seq[i] = u[i % u.len()];
            }
        }
    }
    let kind = *c.rng.pick(&[
        ScoreKind::Lex,
        ScoreKind::Const,
        ScoreKind::Mod3,
        ScoreKind::Hash64,
        ScoreKind::AtCount,
        ScoreKind::Perm,
        ScoreKind::PermRcMin,
        ScoreKind::Big,
    ]);
    let salt = c.rng.next();
    let perm: Vec<usize> = {
        let n = 1usize << (2 * p.min(8));
        let mut v: Vec<usize> = (0..n).collect();
        c.rng.shuffle(&mut v);
        v
    };
    let score = |pm: &[u8]| score_of(kind, pm, &perm, salt);
    let calls = Cell::new(0u64);
    // container
    let container = c.rng.below(6);
    let ivs: Vec<Interval> = match container {
        0 => scan_with::<DnaString, P>(&DnaString::from_bytes(&seq), k, &score, &calls),
        1 => {
            // forward slice at an offset inside a longer backing string
            let pre = c.rng.below(40);
            let mut back = c.rng.bases(pre, 4);
            back.extend_from_slice(&seq);
            back.extend(c.rng.bases(c.rng.below(10), 4));
            let ds = DnaString::from_bytes(&back);
            let sl = ds.slice(pre, pre + m);
            scan_with::<_, P>(&sl, k, &score, &calls)
        }
        2 => {
            // reverse-complemented slice: the view reads `seq`
            let pre = c.rng.below(40);
            let mut back = c.rng.bases(pre, 4);
            back.extend(rc(&seq));
            back.extend(c.rng.bases(c.rng.below(10), 4));
            let ds = DnaString::from_bytes(&back);
            let sl = ds.slice(pre, pre + m).rc();
            scan_with::<_, P>(&sl, k, &score, &calls)
        }
        3 => scan_with::<DnaBytes, P>(&DnaBytes(seq.clone()), k, &score, &calls),
        4 => scan_with::<DnaSlice, P>(&DnaSlice(&seq), k, &score, &calls),
        _ => {
            if m <= Lmer3::max_len() {
                scan_with::<Lmer3, P>(&Lmer3::from_slice(&seq), k, &score, &calls)
            } else {
                scan_with::<DnaString, P>(&DnaString::from_bytes(&seq), k, &score, &calls)
            }
        }
    };
    let ties = check_clauses(&seq, k, p, &ivs, &score).map_err(|e| {
        format!("[p={} k={} m={} score={:?} container={} seq={}] {}", p, k, m, kind, container, ascii(&seq), e)
    })?;
    // the deprecated wrapper must agree field for field (permutation scores, P <= 8)
    if p <= 8 && m < (1 << 16) {
        let rcflag = c.rng.chance(1, 2);
        let pscore = |pm: &[u8]| score_of(if rcflag { ScoreKind::PermRcMin } else { ScoreKind::Perm }, pm, &perm, 0);
        let calls2 = Cell::new(0u64);
        let a = scan_with::<DnaString, P>(&DnaString::from_bytes(&seq), k, &pscore, &calls2);
        #[allow(deprecated)]
        let b = simple_scan::<DnaString, P>(k, &DnaString::from_bytes(&seq), &perm, rcflag);
        ensure!(a.len() == b.len(), "simple_scan returns {} intervals, Scanner {}", b.len(), a.len());
        for (x, y) in a.iter().zip(b.iter()) {
            let canon_min = canon_s(&x.minimizer, false);
            let bucket = canon_min.iter().fold(0u64, |acc, b| (acc << 2) | *b as u64);
            ensure!(
                x.start == y.start() && x.len == y.len() && bucket as u16 == y.bucket(),
                "simple_scan interval (start {}, len {}, bucket {}) != Scanner (start {}, len {}, bucket {})",
                y.start(),
                y.len(),
                y.bucket(),
                x.start,
                x.len,
                bucket
            );
        }
        check_clauses(&seq, k, p, &a, &pscore).map_err(|e| format!("[perm score p={} k={} seq={}] {}", p, k, ascii(&seq), e))?;
        c.count("simple_scan_comparisons", 1);
        // msp_sequence is the third entry point onto the same scan: its pieces must be exactly the
        // intervals of a scan under the SAME permutation - also right after the caller has rewritten
        // the permutation buffer in place (a result must not be computed from a remembered table)
        if m <= 2 * k - p || k > p {
            let mut perm2 = perm.clone();
            for round in 0..2 {
                if round == 1 {
                    perm2.reverse();
                    let l = perm2.len();
                    perm2.swap(0, l / 2);
                }
                let sc = |pm: &[u8]| score_of(if rcflag { ScoreKind::PermRcMin } else { ScoreKind::Perm }, pm, &perm2, 0);
                let calls3 = Cell::new(0u64);
                let iv = scan_with::<DnaString, P>(&DnaString::from_bytes(&seq), k, &sc, &calls3);
                let pieces = msp_sequence::<P, DnaString>(k, &seq, Some(&perm2), rcflag);
                ensure!(pieces.len() == iv.len(), "msp_sequence returns {} pieces, a scan under the same permutation {} intervals (round {})", pieces.len(), iv.len(), round);
                for (pc, x) in pieces.iter().zip(iv.iter()) {
                    let canon_min = canon_s(&x.minimizer, false);
                    let bucket = canon_min.iter().fold(0u64, |acc, b| (acc << 2) | *b as u64) as u32;
                    ensure!(
                        pc.2.len() == x.len && pc.0 == bucket && pc.2.to_bytes() == seq[x.start..x.start + x.len],
                        "msp_sequence piece (len {}, bucket {}) != scan interval (start {}, len {}, bucket {}) under the same permutation{}",
                        pc.2.len(), pc.0, x.start, x.len, bucket,
                        if round == 1 { " - after the permutation buffer was rewritten in place" } else { "" }
                    );
                }
                c.count("msp_sequence_vs_scan_comparisons", 1);
            }
        }
    }
    c.count("scans", 1);
    c.count("intervals", ivs.len() as u64);
    c.count("score_calls_observed", calls.get());
    c.count("tied_minimum_pmers", ties);
    c.count("scans_k_equals_p", (k == p) as u64);
    c.count("scans_constant_or_tied_score", matches!(kind, ScoreKind::Const | ScoreKind::Mod3 | ScoreKind::AtCount) as u64);
    c.count("scans_score_above_2_32", matches!(kind, ScoreKind::Big | ScoreKind::Hash64) as u64);
    if ivs.len() > 1 {
        c.nontrivial(H::new().u(p as u64).u(k as u64).u(kind as u64).b(&seq).get());
    }
    c.sample(|| json!({"p": p, "k": k, "score": format!("{:?}", kind), "container": container, "seq": ascii(&seq), "intervals": ivs.iter().map(|i| json!([i.start, i.len, i.pos])).collect::<Vec<_>>()}));
    Ok(())
}

pub const RULE_C07: &str = "case = sequence (alphabet 1-4 letters, length k..5k+3, optionally a noisy tandem repeat so the minimizer recurs inside one window) x P in {2,3,4,5,8,10,16} x k in p..p+40 (k=p weighted 1/6) x score in {lexicographic, constant, rank mod 3, 64-bit hash, AT-count, permutation, permutation rc-min, scores >= 2^32} x container {DnaString, DnaStringSlice fwd, DnaStringSlice rc, DnaBytes, DnaSlice, Lmer3}; distinct = hash of (p,k,score kind,sequence); non-trivial = more than one interval";

pub fn run_c07(ctx: &Ctx) {
    let n = ctx.n(1_500_000, 60_000_000);
    ctx.run_group("scan", n, false, |c| match c.rng.below(7) {
        0 => c07_p::<Kmer2>(c),
        1 => c07_p::<Kmer3>(c),
        2 => c07_p::<Kmer4>(c),
        3 => c07_p::<Kmer5>(c),
        4 => c07_p::<Kmer8>(c),
        5 => c07_p::<Kmer10>(c),
        _ => c07_p::<Kmer16>(c),
    });
    if !ctx.is_miri() {
        ctx.require("intervals", 10_000);
        ctx.require("scans_k_equals_p", 100);
        ctx.require("scans_with_window_of_250_or_more_pmers", 1000);
        ctx.require("tied_minimum_pmers", 1000);
        ctx.require("simple_scan_comparisons", 100);
        ctx.require("msp_sequence_vs_scan_comparisons", 100);
    }
}

// ---------------------------------------------------------------------------------------------
// C08
// ---------------------------------------------------------------------------------------------

fn c08_run<P: Kmer, V: Vmer>(
    c: &mut Case,
    k: usize,
    reads: &[S],
    perm: Option<&[usize]>,
    rcmode: bool,
    buckets: &mut HashMap<S, (u32, usize, usize)>,
) -> Result<(u64, u64), String> {
    let p = P::k();
    let mut obs = 0u64;
    let mut pieces_n = 0u64;
    for (ri, read) in reads.iter().enumerate() {
        let parts = msp_sequence::<P, V>(k, read, perm, rcmode);
        if read.len() < k {
            ensure!(parts.is_empty(), "read shorter than k produced pieces");
            continue;
        }
        ensure!(!parts.is_empty(), "read of length {} >= k produced no piece", read.len());
        let mut start = 0usize;
        let mut nk = 0usize;
        for (j, (bucket, exts, piece)) in parts.iter().enumerate() {
            let pb = mer_bytes(piece);
            let len = pb.len();
            ensure!(len >= k, "piece {} of read {} has length {} < k", j, ri, len);
            ensure!(
                len <= 2 * k - p,
                "piece {} of read {} has length {} > 2k-p = {} (the container is only guaranteed to hold 2k-p bases)",
                j,
                ri,
                len,
                2 * k - p
            );
            ensure!(
                start + len <= read.len() && pb[..] == read[start..start + len],
                "piece {} of read {} is not the substring of the read at its tiling position {} (piece {}, read {})",
                j,
                ri,
                start,
                ascii(&pb),
                ascii(read)
            );
            let mut e = 0u8;
            if start > 0 {
                e |= bit(L, read[start - 1]);
            }
            if start + len < read.len() {
                e |= bit(R, read[start + len]);
            }
            ensure!(
                exts.val == e,
                "piece {} of read {} [{}..{}): boundary extensions {:#04x}, the read's flanking bases give {:#04x}",
                j,
                ri,
                start,
                start + len,
                exts.val,
                e
            );
            // the bucket must be the canonical value of a minimum-score p-mer (under the caller's
            // permutation, strand-folded in rc mode) that lies inside every k-mer of the piece
            {
                let rank = |s: &[u8]| s.iter().fold(0usize, |a, b| (a << 2) | *b as usize);
                let pscore = |s: &[u8]| -> usize {
                    let f = match perm { Some(pm) => pm[rank(s)], None => rank(s) };
                    if rcmode {
                        let r = rc(s);
                        f.min(match perm { Some(pm) => pm[rank(&r)], None => rank(&r) })
                    } else {
                        f
                    }
                };
                let best = (start..=start + len - p).map(|q| pscore(&read[q..q + p])).min().unwrap();
                let lo = start + len - k; // last k-mer start
                let hi = start + k - p; // last position still inside the first k-mer
                let ok = (lo..=hi.min(start + len - p)).any(|q| {
                    let pm = &read[q..q + p];
                    pscore(pm) == best && rank(&canon_s(pm, false)) as u32 == *bucket
                });
                ensure!(
                    ok,
                    "piece {} of read {} [{}..{}): bucket {} is not the canonical value of a minimum-score p-mer shared by all its k-mers (minimum score in the piece: {})",
                    j, ri, start, start + len, bucket, best
                );
            }
            for i in 0..=(len - k) {
                let w = &read[start + i..start + i + k];
                let key = if rcmode { canon_s(w, false) } else { w.to_vec() };
                match buckets.get(&key) {
                    Some((b0, r0, p0)) => ensure!(
                        *b0 == *bucket,
                        "k-mer {} is sent to bucket {} (read {} pos {}) and to bucket {} (read {} pos {})",
                        ascii(&key),
                        b0,
                        r0,
                        p0,
                        bucket,
                        ri,
                        start + i
                    ),
                    None => {
                        buckets.insert(key, (*bucket, ri, start + i));
                    }
                }
                obs += 1;
            }
            nk += len - k + 1;
            pieces_n += 1;
            if j + 1 < parts.len() {
                start = start + len - (k - 1);
            } else {
                ensure!(start + len == read.len(), "last piece of read {} ends at {} != {}", ri, start + len, read.len());
            }
        }
        ensure!(
            nk == read.len() - k + 1,
            "pieces of read {} hold {} k-mers, the read has {}",
            ri,
            nk,
            read.len() - k + 1
        );
    }
    let _ = c;
    Ok((obs, pieces_n))
}

fn c08_case<P: Kmer>(c: &mut Case) -> Result<(), String> {
    let p = P::k();
    // container choice first, so that k can sit at the container's capacity limit
    let cont = c.rng.below(5);
    let maxlen = match cont {
        2 => Lmer1::max_len(),
        3 => Lmer2::max_len(),
        4 => Lmer3::max_len(),
        _ => usize::MAX,
    };
    let k = if maxlen != usize::MAX && c.rng.chance(1, 2) {
        ((maxlen + p) / 2).max(p + 1)
    } else {
        let kk = p + 1 + c.rng.below(12);
        if maxlen != usize::MAX && 2 * kk - p > maxlen {
            ((maxlen + p) / 2).max(p + 1)
        } else {
            kk
        }
    };
    if maxlen != usize::MAX && 2 * k - p > maxlen {
        return Ok(());
    }
    // read set in which k-mers recur: base, rc, sub-reads, tandem repeats
    let alpha = *c.rng.pick(&[2usize, 3, 4, 4]);
    // rarely a read longer than 2^16 / 2^17 bases (window / counter thresholds in the scanner)
    let long_read = !c.lane_miri && maxlen == usize::MAX && c.rng.chance(1, 400);
    let base_len = if long_read { *c.rng.pick(&[65_530usize, 65_600, 131_100, 200_000]) + c.rng.below(50) } else { k + c.rng.below(4 * k + 20) };
    if long_read { c.count("read_sets_with_read_longer_than_65536", 1); }
    let base = c.rng.bases(base_len, alpha);
    let mut reads = vec![base.clone()];
    for _ in 0..c.rng.range(1, 5) {
        let r = match c.rng.below(6) {
            0 => rc(&base),
            1 => {
                let a = c.rng.below(base.len());
                let b = a + c.rng.below(base.len() - a + 1);
                let v = base[a..b].to_vec();
                if c.rng.chance(1, 2) { rc(&v) } else { v }
            }
            2 => {
                let u = c.rng.bases(c.rng.range(1, p + 2), 4);
                let n = k + c.rng.below(3 * k);
                (0..n).map(|i| u[i % u.len()]).collect()
            }
            3 => {
                // flanked copy: same k-mers, different neighbours
                let mut v = c.rng.bases(c.rng.below(2 * k), alpha);
                v.extend_from_slice(&base);
                v.extend(c.rng.bases(c.rng.below(2 * k), alpha));
                v
            }
            4 => vec![c.rng.base(); k + c.rng.below(2 * k)],
            _ => c.rng.bases(c.rng.below(3 * k), alpha),
        };
        reads.push(r);
    }
    let perm: Option<Vec<usize>> = match if p > 8 { 0 } else { c.rng.below(3) } {
        0 => None,
        1 => {
            let mut v: Vec<usize> = (0..1usize << (2 * p)).collect();
            c.rng.shuffle(&mut v);
            Some(v)
        }
        _ => Some((0..1usize << (2 * p)).rev().collect()),
    };
    let rcmode = c.rng.chance(2, 3);
    let mut buckets: HashMap<S, (u32, usize, usize)> = HashMap::new();
    let r = match cont {
        0 => c08_run::<P, DnaString>(c, k, &reads, perm.as_deref(), rcmode, &mut buckets),
        1 => c08_run::<P, DnaBytes>(c, k, &reads, perm.as_deref(), rcmode, &mut buckets),
        2 => c08_run::<P, Lmer1>(c, k, &reads, perm.as_deref(), rcmode, &mut buckets),
        3 => c08_run::<P, Lmer2>(c, k, &reads, perm.as_deref(), rcmode, &mut buckets),
        _ => c08_run::<P, Lmer3>(c, k, &reads, perm.as_deref(), rcmode, &mut buckets),
    };
    let (obs, pieces) = r.map_err(|e| format!("[p={} k={} rc={} container={} perm={}] {}", p, k, rcmode, cont, perm.is_some(), e))?;
    c.count("read_sets", 1);
    c.count("kmer_observations", obs);
    c.count("repeated_observations", obs - buckets.len() as u64);
    c.count("pieces", pieces);
    c.count("cases_rc_mode", rcmode as u64);
    c.count("cases_piece_container_at_capacity", (maxlen != usize::MAX && 2 * k - p + 1 > maxlen) as u64);
    if obs > buckets.len() as u64 && pieces > reads.len() as u64 {
        let mut h = H::new();
        h.u(p as u64).u(k as u64).u(rcmode as u64);
        for r in &reads {
            h.b(r);
        }
        c.nontrivial(h.get());
    }
    c.sample(|| json!({"p": p, "k": k, "rc": rcmode, "container": cont, "reads": reads.iter().map(|r| ascii(r)).collect::<Vec<_>>()}));
    Ok(())
}

pub const RULE_C08: &str = "case = read set in which k-mers recur by construction (a base read, its reverse complement, sub-reads, flanked copies, tandem repeats, homopolymers) x P in {2,3,4,5,6,8} x k in p+1..p+12 or at the piece container's capacity limit (2k-p = max_len) x permutation {default, shuffled, reversed} x rc mode x piece container {DnaString, DnaBytes, Lmer1, Lmer2, Lmer3}; distinct = hash of (p,k,rc,reads); non-trivial = some k-mer observed more than once AND some read cut into more than one piece";

pub fn run_c08(ctx: &Ctx) {
    let n = ctx.n(600_000, 30_000_000);
    ctx.run_group("msp", n, false, |c| match if c.rng.chance(1, 200) { 6 } else { c.rng.below(6) } {
        6 => c08_case::<Kmer10>(c),
        0 => c08_case::<Kmer2>(c),
        1 => c08_case::<Kmer3>(c),
        2 => c08_case::<Kmer4>(c),
        3 => c08_case::<Kmer5>(c),
        4 => c08_case::<Kmer6>(c),
        _ => c08_case::<Kmer8>(c),
    });
    if !ctx.is_miri() {
        ctx.require("read_sets_with_read_longer_than_65536", 100);
        ctx.require("repeated_observations", 10_000);
        ctx.require("cases_rc_mode", 100);
        ctx.require("cases_piece_container_at_capacity", 100);
    }
}
