//! C12: reverse complement is coherent across all sequence types.

use crate::ktypes::*;
use crate::model::*;
use crate::runner::{Case, Ctx};
use crate::util::{ascii, H};
use crate::{ensure, with_all_k};
use debruijn::dna_string::DnaString;
use debruijn::vmer::{Lmer, Lmer1, Lmer2, Lmer3};
use debruijn::{Exts, Kmer, Mer, Vmer};
use serde_json::json;

type Lmer4 = Lmer<[u64; 4]>;
type Lmer6 = Lmer<[u64; 6]>;

fn laws(name: &str, orig: &[u8], rc_bytes: &[u8], rcrc_bytes: &[u8]) -> Result<(), String> {
    let n = orig.len();
    ensure!(rc_bytes.len() == n, "{}: rc changes the length {} -> {}", name, n, rc_bytes.len());
    for i in 0..n {
        ensure!(
            rc_bytes[i] == 3 - orig[n - 1 - i],
            "{}: rc(x)[{}] = {} but 3 - x[{}] = {} (x = {})",
            name,
            i,
            rc_bytes[i],
            n - 1 - i,
            3 - orig[n - 1 - i],
            ascii(orig)
        );
    }
    ensure!(rcrc_bytes == orig, "{}: rc is not an involution on {}", name, ascii(orig));
    Ok(())
}

fn kmer_commute<K: Kmer, V: Vmer>(name: &str, v: &V, vrc: &V, s: &[u8]) -> Result<u64, String> {
    let k = K::k();
    let n = s.len();
    if n < k {
        return Ok(0);
    }
    let mut checked = 0;
    for i in 0..=(n - k) {
        let a: K = vrc.get_kmer(i);
        let b: K = v.get_kmer(n - k - i);
        ensure!(
            a == b.rc(),
            "{}: k-mer {} of rc(x) is {:?}, rc of k-mer {} of x is {:?} (K={}, x={})",
            name,
            i,
            a,
            n - k - i,
            b.rc(),
            k,
            ascii(s)
        );
        checked += 1;
    }
    Ok(checked)
}

fn kmer_laws<K: Kmer>(s: &[u8]) -> Result<(), String> {
    let x = K::from_bytes(s);
    let r = x.rc();
    laws("k-mer", s, &kstr(&r), &kstr(&r.rc()))?;
    let rs = rc(s);
    let mn = if s < &rs[..] { s.to_vec() } else { rs.clone() };
    ensure!(kstr(&x.min_rc()) == mn && kstr(&r.min_rc()) == mn, "min_rc differs between a k-mer and its reverse complement ({})", ascii(s));
    ensure!(x.min_rc_flip().0 == r.min_rc_flip().0, "min_rc_flip representative differs between strands");
    if s != &rs[..] {
        ensure!(x.min_rc_flip().1 != r.min_rc_flip().1, "min_rc_flip flags of the two strands of {} are equal", ascii(s));
    }
    ensure!(x.is_palindrome() == (s == &rs[..]), "is_palindrome({}) = {}", ascii(s), x.is_palindrome());
    ensure!(r.is_palindrome() == x.is_palindrome(), "is_palindrome differs between strands");
    Ok(())
}

fn lmer_laws<V: Vmer + Clone>(name: &str, s: &[u8], c: &mut Case) -> Result<u64, String> {
    let v = V::from_slice(s);
    let r = v.rc();
    laws(name, s, &mer_bytes(&r), &mer_bytes(&r.rc()))?;
    ensure!(r.len() == s.len() && r.rc() == v, "{}: rc.rc != identity as values", name);
    ensure!(r == V::from_slice(&rc(s)), "{}: rc(x) is not == the container built from the reverse-complemented bases (x={})", name, ascii(s));
    let mut n = 0;
    n += kmer_commute::<Kmer5, V>(name, &v, &r, s)?;
    n += kmer_commute::<Kmer16, V>(name, &v, &r, s)?;
    n += kmer_commute::<Kmer31, V>(name, &v, &r, s)?;
    n += kmer_commute::<Kmer48, V>(name, &v, &r, s)?;
    let _ = c;
    Ok(n)
}

fn c12_case(c: &mut Case) -> Result<(), String> {
    let fixed = [0usize, 1, 2, 31, 32, 33, 63, 64, 65, 95, 96, 97, 127, 128, 129, 160, 192];
    let long = !c.lane_miri && c.rng.chance(1, 1500);
    if long { c.count("strings_longer_than_65000", 1); }
    let n = if long { (1usize << c.rng.range(16, 17)) + *c.rng.pick(&[0usize, 1, 31, 32, 33]) - c.rng.below(2) * 37 } else if c.rng.chance(1, 2) { *c.rng.pick(&fixed) } else { c.rng.below(301) };
    let alpha = *c.rng.pick(&[1usize, 2, 4, 4, 4]);
    let mut s = c.rng.bases(n, alpha);
    if c.rng.chance(1, 6) && n >= 2 {
        // reverse-palindromic content
        let h = s[..n / 2].to_vec();
        let mut v = h.clone();
        if n % 2 == 1 {
            v.push(c.rng.base());
        }
        v.extend(rc(&h));
        s = v;
    }
    let mut kchecks = 0u64;
    // growable string
    let ds = DnaString::from_bytes(&s);
    let dr = ds.rc();
    laws("DnaString", &s, &dr.to_bytes(), &dr.rc().to_bytes())?;
    ensure!(dr == DnaString::from_bytes(&rc(&s)), "DnaString::rc(x) != DnaString built from reversed complemented bases (len {})", n);
    ensure!(dr.rc() == ds, "DnaString rc.rc != x as values (len {})", n);
    kchecks += kmer_commute::<Kmer4, DnaString>("DnaString", &ds, &dr, &s)?;
    kchecks += kmer_commute::<Kmer20, DnaString>("DnaString", &ds, &dr, &s)?;
    kchecks += kmer_commute::<Kmer32, DnaString>("DnaString", &ds, &dr, &s)?;
    kchecks += kmer_commute::<Kmer64, DnaString>("DnaString", &ds, &dr, &s)?;
    // slices at a random offset in a longer backing string, and rc'd
    let pre = c.rng.below(70);
    let post = c.rng.below(40);
    let mut back = c.rng.bases(pre, 4);
    back.extend_from_slice(&s);
    back.extend(c.rng.bases(post, 4));
    let bs = DnaString::from_bytes(&back);
    let sl = bs.slice(pre, pre + n);
    let slr = sl.rc();
    laws("DnaStringSlice", &s, &slr.bytes(), &slr.rc().bytes())?;
    ensure!(slr.bytes() == dr.to_bytes(), "slice rc and owned rc disagree");
    ensure!(slr.to_owned() == dr, "rc slice to_owned() != DnaString::rc of the same bases");
    kchecks += kmer_commute::<Kmer6, _>("DnaStringSlice", &sl, &slr, &s)?;
    kchecks += kmer_commute::<Kmer24, _>("DnaStringSlice", &sl, &slr, &s)?;
    kchecks += kmer_commute::<Kmer40, _>("DnaStringSlice", &sl, &slr, &s)?;
    // rc slice k-mers equal owned-rc k-mers
    if n >= 15 {
        for i in [0usize, n - 15, c.rng.below(n - 14)] {
            let a: Kmer15 = slr.get_kmer(i);
            let b: Kmer15 = dr.get_kmer(i);
            ensure!(a == b, "k-mer {} of an rc slice != k-mer {} of the owned rc string", i, i);
        }
    }
    // fixed-size strings
    if n <= Lmer1::max_len() {
        kchecks += lmer_laws::<Lmer1>("Lmer1", &s, c)?;
    }
    if n <= Lmer2::max_len() {
        kchecks += lmer_laws::<Lmer2>("Lmer2", &s, c)?;
    }
    if n <= Lmer3::max_len() {
        kchecks += lmer_laws::<Lmer3>("Lmer3", &s, c)?;
    }
    if n <= Lmer4::max_len() {
        kchecks += lmer_laws::<Lmer4>("Lmer4", &s, c)?;
    }
    if n <= Lmer6::max_len() {
        kchecks += lmer_laws::<Lmer6>("Lmer6", &s, c)?;
    }
    // k-mer when n == K
    if let Some(idx) = [2usize, 3, 4, 5, 6, 8, 10, 12, 14, 15, 16, 20, 24, 30, 31, 32, 40, 48, 64].iter().position(|k| *k == n) {
        with_all_k!(idx, K => kmer_laws::<K>(&s))?;
        // cross-type: k-mer rc == DnaString rc == Lmer rc bytes
        with_all_k!(idx, K => {
            let x = K::from_bytes(&s).rc();
            ensure!(kstr(&x) == dr.to_bytes(), "k-mer rc and DnaString rc disagree on {}", ascii(&s));
            Ok::<(), String>(())
        })?;
        c.count("kmer_sized_strings", 1);
    }
    c.count("strings", 1);
    c.count("kmer_commutation_checks", kchecks);
    c.count("strings_multiple_of_32", (n > 0 && n % 32 == 0) as u64);
    c.nontrivial(H::new().b(&s).get());
    c.sample(|| json!({"len": n, "seq": ascii(&s), "backing_offset": pre}));
    Ok(())
}

/// every k-mer type on random values (n = K), plus palindromes of every shape
fn c12_kmers(c: &mut Case) -> Result<(), String> {
    let idx = (c.idx % 19) as usize;
    let k = [2usize, 3, 4, 5, 6, 8, 10, 12, 14, 15, 16, 20, 24, 30, 31, 32, 40, 48, 64][idx];
    let s: S = match c.rng.below(5) {
        0 => {
            let h = c.rng.bases(k / 2, 4);
            let mut v = h.clone();
            if k % 2 == 1 {
                v.push(c.rng.base());
            }
            v.extend(rc(&h));
            v
        }
        1 => {
            // short palindrome followed by T's / preceded by A's (shapes that fool mask-instead-of-shift tricks)
            let hl = c.rng.range(1, (k / 2).max(1));
            let h = c.rng.bases(hl, 4);
            let mut v = h.clone();
            v.extend(rc(&h));
            v.truncate(k);
            while v.len() < k {
                v.push(3);
            }
            if c.rng.chance(1, 2) {
                v.reverse();
                for b in v.iter_mut() {
                    *b = 3 - *b;
                }
            }
            v
        }
        2 => vec![c.rng.base(); k],
        _ => c.rng.bases(k, 4),
    };
    with_all_k!(idx, K => kmer_laws::<K>(&s))?;
    c.count("kmer_values", 1);
    c.count("kmer_palindromes", (rc(&s) == s) as u64);
    c.nontrivial(H::new().u(k as u64).b(&s).get());
    Ok(())
}

fn c12_exts(c: &mut Case) -> Result<(), String> {
    let e = c.idx as u8;
    let x = Exts::new(e);
    // the three operations in every order (a lazily built table must not depend on which came first)
    let order = (c.idx / 3) % 6;
    let perm: [usize; 3] = [[0, 1, 2], [0, 2, 1], [1, 0, 2], [1, 2, 0], [2, 0, 1], [2, 1, 0]][order as usize];
    for op in perm {
        match op {
            0 => ensure!(x.rc().val == exts_rc(e), "Exts::rc({:#04x}) = {:#04x}, expected {:#04x} (call order {:?})", e, x.rc().val, exts_rc(e), perm),
            1 => ensure!(x.complement().val == exts_complement(e), "Exts::complement({:#04x}) = {:#04x} (call order {:?})", e, x.complement().val, perm),
            _ => ensure!(x.reverse().val == exts_reverse(e), "Exts::reverse({:#04x}) = {:#04x} (call order {:?})", e, x.reverse().val, perm),
        }
    }
    ensure!(x.rc().rc() == x, "Exts::rc not an involution on {:#04x}", e);
    // semantics against a k-mer: the extensions of rc(k) are the rc'd extensions
    let km = Kmer5::from_bytes(&[0, 1, 3, 2, 2]);
    for (side, dir, oside, odir) in [(L, debruijn::Dir::Left, R, debruijn::Dir::Right), (R, debruijn::Dir::Right, L, debruijn::Dir::Left)] {
        let _ = (side, oside);
        let mut a: Vec<S> = km.get_extensions(x, dir).iter().map(|y| kstr(&y.rc())).collect();
        let mut b: Vec<S> = km.rc().get_extensions(x.rc(), odir).iter().map(|y| kstr(y)).collect();
        a.sort();
        b.sort();
        ensure!(a == b, "extensions of rc(k) under Exts::rc({:#04x}) are not the reverse complements of k's extensions", e);
    }
    c.count("exts_values", 1);
    c.nontrivial(e as u64);
    Ok(())
}

pub const RULE_C12: &str = "exhaustive group: all 256 extension sets (rc, complement, reverse vs bit-level model, involution, coherence with k-mer extension); sampled: one base string per case (lengths 0,1,2,31,32,33,63,64,65,95,96,97,127,128,129,160,192 half the time, else random <= 300; optionally reverse-palindromic) materialised as DnaString, DnaStringSlice at a random offset, rc'd slice, Lmer1/2/3/4/6 when it fits and a k-mer when the length is one of the 19 K values; laws: position/complement map, involution, value equality with the container built from the reversed complemented bases, i-th k-mer of rc == rc of (n-K-i)-th k-mer for 11 K types, min_rc/min_rc_flip/is_palindrome on both strands; k-mer group: all 19 types on palindromes, padded short palindromes, homopolymers and random values; distinct = hash(sequence)";

pub fn run_c12(ctx: &Ctx) {
    // 256 values x 6 call orders (case i: value i mod 256); fresh worker threads per group, so the first
    // Exts operation executed on a thread varies between rc, complement and reverse
    ctx.run_group("exts_exhaustive", 256 * 6 * 3, true, |c| c12_exts(c));
    let n = ctx.n(300_000, 15_000_000);
    ctx.run_group("strings", n, false, |c| c12_case(c));
    let nk = ctx.n(950_000, 47_500_000);
    ctx.run_group("kmers", nk, false, |c| c12_kmers(c));
    if !ctx.is_miri() {
        ctx.require("exts_values", 256 * 6 * 3);
        ctx.require("kmer_commutation_checks", 100_000);
        ctx.require("strings_multiple_of_32", 1000);
        ctx.require("strings_longer_than_65000", 50);
        ctx.require("kmer_palindromes", 1000);
    }
}
