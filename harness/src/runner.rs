//! Case runner: deterministic parallel execution of monitor cases, panic capture, watchdog,
//! counters of what the monitors actually observed, replay files and evidence parts.

use crate::util::Rng;
use serde_json::{json, Map, Value};
use std::cell::RefCell;
use std::collections::{BTreeMap, HashSet};
use std::panic::{catch_unwind, AssertUnwindSafe};
use std::sync::atomic::{AtomicBool, AtomicU64, AtomicUsize, Ordering};
use std::sync::Mutex;
use std::time::Instant;

#[derive(Clone, Copy, PartialEq, Eq, Debug)]
pub enum Tier {
    Quick,
    Thorough,
}

impl Tier {
    pub fn name(&self) -> &'static str {
        match self {
            Tier::Quick => "quick",
            Tier::Thorough => "thorough",
        }
    }
}

#[derive(Clone, Debug)]
pub struct Violation {
    pub group: String,
    pub case: u64,
    pub message: String,
    pub kind: &'static str, // "oracle" | "panic"
    /// cases the same worker thread executed just before this one (most recent last): a violation
    /// caused by library state carried from call to call needs them to reproduce
    pub history: Vec<u64>,
}

#[derive(Default)]
struct State {
    counters: BTreeMap<String, u64>,
    distinct: HashSet<u64>,
    samples: Vec<Value>,
    evaluations: u64,
    violations: Vec<Violation>,
    groups: Vec<Value>,
    requirements: Vec<(String, u64)>,
    notes: Vec<String>,
}

pub struct Ctx {
    pub prop: String,
    pub tier: Tier,
    pub seed: u64,
    pub threads: usize,
    /// volume multiplier of this lane (1.0 for the release lane)
    pub scale: f64,
    pub lane: String,
    pub replay: Option<(String, u64)>,
    /// cases to execute (silently, same thread) before the replayed one
    pub replay_history: Vec<u64>,
    /// per-case watchdog budget in seconds (already multiplied by the lane's slow-down factor)
    case_timeout_s: AtomicU64,
    lane_factor: u64,
    pub verif_dir: String,
    /// (i, n): only cases with idx % n == i are run (parallel sharding of slow lanes)
    pub shard: (u64, u64),
    state: Mutex<State>,
    stop: AtomicBool,
    start: Instant,
}

thread_local! {
    static LAST_PANIC: RefCell<Option<String>> = RefCell::new(None);
    static QUIET_PANIC: RefCell<bool> = RefCell::new(false);
}

pub fn install_panic_hook() {
    let default = std::panic::take_hook();
    std::panic::set_hook(Box::new(move |info| {
        let quiet = QUIET_PANIC.with(|q| *q.borrow());
        if quiet {
            let msg = if let Some(s) = info.payload().downcast_ref::<&str>() {
                s.to_string()
            } else if let Some(s) = info.payload().downcast_ref::<String>() {
                s.clone()
            } else {
                "<non-string panic>".to_string()
            };
            let loc = info
                .location()
                .map(|l| format!("{}:{}", l.file(), l.line()))
                .unwrap_or_default();
            LAST_PANIC.with(|p| *p.borrow_mut() = Some(format!("{} @ {}", msg, loc)));
        } else {
            default(info);
        }
    }));
}

/// Per-case context handed to the monitor closure.
pub struct Case<'a> {
    pub rng: Rng,
    pub idx: u64,
    pub tier: Tier,
    pub verbose: bool,
    pub lane_miri: bool,
    counters: &'a mut BTreeMap<&'static str, u64>,
    distinct: &'a mut Vec<u64>,
    sample: &'a mut Option<Value>,
    want_sample: bool,
}

impl<'a> Case<'a> {
    #[inline]
    pub fn count(&mut self, key: &'static str, n: u64) {
        *self.counters.entry(key).or_insert(0) += n;
    }
    #[inline]
    pub fn hit(&mut self, key: &'static str) {
        self.count(key, 1);
    }
    /// Record that this case is non-trivial by the property's rule; `hash` identifies the case content.
    pub fn nontrivial(&mut self, hash: u64) {
        self.distinct.push(hash);
    }
    pub fn sample<F: FnOnce() -> Value>(&mut self, f: F) {
        if self.want_sample && self.sample.is_none() {
            *self.sample = Some(f());
        }
    }
    pub fn log<F: FnOnce() -> String>(&self, f: F) {
        if self.verbose {
            eprintln!("  [case {}] {}", self.idx, f());
        }
    }
}

impl Ctx {
    pub fn new(prop: &str, tier: Tier, seed: u64, lane: &str, scale: f64, threads: usize) -> Ctx {
        Ctx {
            prop: prop.to_string(),
            tier,
            seed,
            threads: threads.max(1),
            scale,
            lane: lane.to_string(),
            replay: None,
            replay_history: Vec::new(),
            case_timeout_s: AtomicU64::new(60 * Self::lane_factor_of(lane)),
            lane_factor: Self::lane_factor_of(lane),
            shard: (0, 1),
            verif_dir: std::env::var("VERIF_DIR").unwrap_or_else(|_| "/verif".to_string()),
            state: Mutex::new(State::default()),
            stop: AtomicBool::new(false),
            start: Instant::now(),
        }
    }

    fn lane_factor_of(lane: &str) -> u64 {
        match lane {
            "tsan" => 12,
            "asan" => 4,
            "relchk" => 2,
            "memcheck" => 60,
            _ => 1,
        }
    }

    /// watchdog budget for the cases of the following groups: `secs` at native speed, scaled by the
    /// lane's slow-down factor. The watchdog only decides "inconclusive, replay alone"; it is never a verdict.
    pub fn set_case_timeout(&self, secs: u64) {
        self.case_timeout_s.store(secs * self.lane_factor, Ordering::SeqCst);
    }

    pub fn is_miri(&self) -> bool {
        self.lane.starts_with("miri")
    }

    /// Number of cases for this tier and lane.
    pub fn n(&self, quick: u64, thorough: u64) -> u64 {
        let base = match self.tier {
            Tier::Quick => quick,
            Tier::Thorough => thorough,
        };
        if self.is_miri() {
            // interpreter lanes: `scale` is the absolute number of cases per group
            return (self.scale.ceil() as u64).max(1).min(base);
        }
        ((base as f64 * self.scale).ceil() as u64).max(1)
    }

    pub fn note(&self, s: String) {
        self.state.lock().unwrap().notes.push(s);
    }

    pub fn add_count(&self, key: &str, n: u64) {
        *self
            .state
            .lock()
            .unwrap()
            .counters
            .entry(key.to_string())
            .or_insert(0) += n;
    }

    pub fn counter(&self, key: &str) -> u64 {
        *self.state.lock().unwrap().counters.get(key).unwrap_or(&0)
    }

    /// The run is only "held" if counter `key` reached `min`; otherwise it is inconclusive.
    pub fn require(&self, key: &str, min: u64) {
        // minimum-observation requirements are sized for the full-volume release lane
        if self.lane != "release" || self.shard.1 != 1 {
            return;
        }
        self.state
            .lock()
            .unwrap()
            .requirements
            .push((key.to_string(), min));
    }

    pub fn violation(&self, group: &str, case: u64, message: String, kind: &'static str, history: Vec<u64>) {
        let mut st = self.state.lock().unwrap();
        st.violations.push(Violation {
            group: group.to_string(),
            case,
            message,
            kind,
            history,
        });
        if st.violations.len() >= 3 {
            self.stop.store(true, Ordering::SeqCst);
        }
    }

    pub fn violations(&self) -> Vec<Violation> {
        self.state.lock().unwrap().violations.clone()
    }

    /// Run `n_cases` cases of `group`; case i is a pure function of (property, group, seed, i).
    pub fn run_group<F>(&self, group: &str, n_cases: u64, exhaustive: bool, f: F)
    where
        F: Fn(&mut Case) -> Result<(), String> + Sync,
    {
        self.run_group_t(group, n_cases, exhaustive, self.threads, f)
    }

    /// like `run_group` with an explicit number of driver threads
    pub fn run_group_t<F>(&self, group: &str, n_cases: u64, exhaustive: bool, threads: usize, f: F)
    where
        F: Fn(&mut Case) -> Result<(), String> + Sync,
    {
        let (first, last) = match &self.replay {
            Some((g, c)) => {
                if g != group {
                    return;
                }
                (*c, *c + 1)
            }
            None => (0, n_cases),
        };
        if self.stop.load(Ordering::SeqCst) {
            return;
        }
        let verbose = self.replay.is_some();
        let t0 = Instant::now();
        let next = AtomicU64::new(first);
        let nthreads = if verbose { 1 } else { threads.max(1).min((last - first).max(1) as usize) };
        let running: Vec<(AtomicU64, AtomicU64)> = (0..nthreads)
            .map(|_| (AtomicU64::new(0), AtomicU64::new(u64::MAX)))
            .collect();
        let done_workers = AtomicUsize::new(0);
        let samples_taken = AtomicUsize::new(0);
        let chunk: u64 = if last - first > 64 * nthreads as u64 { 8 } else { 1 };

        std::thread::scope(|scope| {
            for w in 0..nthreads {
                let next = &next;
                let running = &running;
                let done_workers = &done_workers;
                let samples_taken = &samples_taken;
                let f = &f;
                scope.spawn(move || {
                    QUIET_PANIC.with(|q| *q.borrow_mut() = !verbose);
                    let mut counters: BTreeMap<&'static str, u64> = BTreeMap::new();
                    let mut distinct: Vec<u64> = Vec::new();
                    let mut samples: Vec<Value> = Vec::new();
                    let mut evals = 0u64;
                    let mut hist: std::collections::VecDeque<u64> = std::collections::VecDeque::new();
                    if verbose {
                        // replay: first re-execute what the worker had executed before the failing case
                        for &h in &self.replay_history {
                            let mut sample: Option<Value> = None;
                            let mut case = Case {
                                rng: Rng::for_case(&self.prop, group, self.seed, h),
                                idx: h,
                                tier: self.tier,
                                verbose: false,
                                lane_miri: self.is_miri(),
                                counters: &mut counters,
                                distinct: &mut distinct,
                                sample: &mut sample,
                                want_sample: false,
                            };
                            QUIET_PANIC.with(|q| *q.borrow_mut() = true);
                            let _ = catch_unwind(AssertUnwindSafe(|| f(&mut case)));
                            QUIET_PANIC.with(|q| *q.borrow_mut() = false);
                        }
                    }
                    'outer: loop {
                        let lo = next.fetch_add(chunk, Ordering::SeqCst);
                        if lo >= last {
                            break;
                        }
                        for idx in lo..(lo + chunk).min(last) {
                            if self.stop.load(Ordering::SeqCst) {
                                break 'outer;
                            }
                            if idx % self.shard.1 != self.shard.0 && self.replay.is_none() {
                                continue;
                            }
                            let mut sample: Option<Value> = None;
                            let want_sample =
                                samples.is_empty() && samples_taken.load(Ordering::Relaxed) < 2;
                            let mut case = Case {
                                rng: Rng::for_case(&self.prop, group, self.seed, idx),
                                idx,
                                tier: self.tier,
                                verbose,
                                lane_miri: self.is_miri(),
                                counters: &mut counters,
                                distinct: &mut distinct,
                                sample: &mut sample,
                                want_sample,
                            };
                            running[w].1.store(idx, Ordering::SeqCst);
                            running[w]
                                .0
                                .store(self.start.elapsed().as_millis() as u64 + 1, Ordering::SeqCst);
                            let r = catch_unwind(AssertUnwindSafe(|| f(&mut case)));
                            running[w].0.store(0, Ordering::SeqCst);
                            evals += 1;
                            match r {
                                Ok(Ok(())) => {}
                                Ok(Err(msg)) => self.violation(group, idx, msg, "oracle", hist.iter().cloned().collect()),
                                Err(_) => {
                                    let msg = LAST_PANIC
                                        .with(|p| p.borrow_mut().take())
                                        .unwrap_or_else(|| "panic".to_string());
                                    self.violation(group, idx, format!("panic: {}", msg), "panic", hist.iter().cloned().collect());
                                }
                            }
                            hist.push_back(idx);
                            if hist.len() > 48 {
                                hist.pop_front();
                            }
                            if let Some(s) = sample {
                                samples_taken.fetch_add(1, Ordering::Relaxed);
                                samples.push(json!({"group": group, "case": idx, "content": s}));
                            }
                        }
                    }
                    QUIET_PANIC.with(|q| *q.borrow_mut() = false);
                    let mut st = self.state.lock().unwrap();
                    for (k, v) in counters {
                        *st.counters.entry(k.to_string()).or_insert(0) += v;
                    }
                    for h in distinct {
                        st.distinct.insert(h);
                    }
                    if st.samples.len() < 6 {
                        st.samples.extend(samples);
                    }
                    st.evaluations += evals;
                    drop(st);
                    done_workers.fetch_add(1, Ordering::SeqCst);
                });
            }
            // watchdog (not under Miri, not in replay mode)
            if !self.is_miri() {
                let running = &running;
                let done_workers = &done_workers;
                scope.spawn(move || loop {
                    if done_workers.load(Ordering::SeqCst) >= nthreads {
                        break;
                    }
                    std::thread::sleep(std::time::Duration::from_millis(100));
                    let now = self.start.elapsed().as_millis() as u64 + 1;
                    for r in running.iter() {
                        let st = r.0.load(Ordering::SeqCst);
                        // a replayed case (confirmation run) gets 10x the budget it had in the sweep
                        let budget = self.case_timeout_s.load(Ordering::SeqCst) * if verbose { 10 } else { 1 };
                        if st != 0 && now > st && now - st > budget * 1000 {
                            let idx = r.1.load(Ordering::SeqCst);
                            let path = self.write_replay(group, idx, "watchdog: case exceeded its time budget", "timeout");
                            println!(
                                "TIMEOUT property={} lane={} group={} case={} budget_s={} replay={}",
                                self.prop, self.lane, group, idx, budget, path
                            );
                            std::process::exit(4);
                        }
                    }
                });
            }
        });

        let mut st = self.state.lock().unwrap();
        st.groups.push(json!({
            "group": group,
            "cases": last - first,
            "exhaustive": exhaustive,
            "wall_s": t0.elapsed().as_secs_f64(),
        }));
    }

    pub fn write_replay(&self, group: &str, case: u64, message: &str, kind: &str) -> String {
        self.write_replay_h(group, case, message, kind, &[])
    }

    pub fn write_replay_h(&self, group: &str, case: u64, message: &str, kind: &str, history: &[u64]) -> String {
        let dir = format!("{}/replays", self.verif_dir);
        let _ = std::fs::create_dir_all(&dir);
        let path = format!(
            "{}/{}-{}-{}-{}-{}-{}.json",
            dir,
            self.prop,
            self.lane,
            self.tier.name(),
            self.seed,
            group.replace('/', "_"),
            case
        );
        let v = json!({
            "property": self.prop,
            "lane": self.lane,
            "tier": self.tier.name(),
            "seed": self.seed,
            "group": group,
            "case": case,
            "kind": kind,
            "message": message,
            "history": history,
            "note": "history = cases the same worker thread ran just before (same group); the replay re-executes them first, so that failures caused by library state carried between calls reproduce",
            "replay_cmd": format!("./check {} --replay {}", self.prop, path),
        });
        let _ = std::fs::write(&path, serde_json::to_string_pretty(&v).unwrap());
        path
    }

    /// Write the lane's evidence part and return the process exit code.
    pub fn finish(&self, rule: &str, assumptions: &[&str], extra: Value) -> i32 {
        let st = self.state.lock().unwrap();
        let mut unmet = Vec::new();
        if self.replay.is_none() {
            for (k, min) in &st.requirements {
                let have = *st.counters.get(k).unwrap_or(&0);
                if have < *min {
                    unmet.push(format!("{} = {} < {}", k, have, min));
                }
            }
        }
        let mut counters = Map::new();
        for (k, v) in &st.counters {
            counters.insert(k.clone(), json!(v));
        }
        let part = json!({
            "property_id": self.prop,
            "lane": self.lane,
            "shard": format!("{}/{}", self.shard.0, self.shard.1),
            "tier": self.tier.name(),
            "seed": self.seed,
            "scale": self.scale,
            "threads": self.threads,
            "evaluations": st.evaluations,
            "distinct_nontrivial": st.distinct.len(),
            "rule": rule,
            "samples": st.samples,
            "observed": Value::Object(counters),
            "groups": st.groups,
            "assumptions": assumptions,
            "violations": st.violations.len(),
            "unmet_requirements": unmet,
            "notes": st.notes,
            "extra": extra,
            "wall_s": self.start.elapsed().as_secs_f64(),
        });
        if self.replay.is_none() {
            let dir = format!("{}/evidence/parts", self.verif_dir);
            let _ = std::fs::create_dir_all(&dir);
            let path = format!("{}/{}.{}.{}of{}.json", dir, self.prop, self.lane, self.shard.0, self.shard.1);
            let _ = std::fs::write(&path, serde_json::to_string_pretty(&part).unwrap());
        }
        let viols = st.violations.clone();
        drop(st);
        if !viols.is_empty() {
            for v in viols.iter().take(3) {
                let path = if self.replay.is_some() {
                    "(replay)".to_string()
                } else {
                    self.write_replay_h(&v.group, v.case, &v.message, v.kind, &v.history)
                };
                let mut m = v.message.clone();
                if m.len() > 1500 {
                    m.truncate(1500);
                    m.push_str("…");
                }
                println!(
                    "WITNESS property={} lane={} group={} case={}: {}",
                    self.prop, self.lane, v.group, v.case, m
                );
                println!("VIOLATION property={} replay={}", self.prop, path);
            }
            return 1;
        }
        if !unmet.is_empty() {
            println!(
                "INCONCLUSIVE property={} lane={} monitors observed too little: {}",
                self.prop,
                self.lane,
                unmet.join("; ")
            );
            return 2;
        }
        0
    }
}

/// helper for oracles
#[macro_export]
macro_rules! ensure {
    ($cond:expr, $($arg:tt)*) => {
        if !($cond) {
            return Err(format!($($arg)*));
        }
    };
}
