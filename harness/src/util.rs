//! Small deterministic utilities: PRNG, hashing.

/// xoshiro256** seeded through splitmix64. Every random choice in the harness comes from here.
/// (interior mutability so that nested calls like `rng.bases(rng.below(9), 4)` borrow-check)
#[derive(Clone)]
pub struct Rng {
    s: std::cell::Cell<[u64; 4]>,
}

fn splitmix(x: &mut u64) -> u64 {
    *x = x.wrapping_add(0x9E3779B97F4A7C15);
    let mut z = *x;
    z = (z ^ (z >> 30)).wrapping_mul(0xBF58476D1CE4E5B9);
    z = (z ^ (z >> 27)).wrapping_mul(0x94D049BB133111EB);
    z ^ (z >> 31)
}

impl Rng {
    pub fn new(seed: u64) -> Rng {
        let mut x = seed;
        let s = [
            splitmix(&mut x),
            splitmix(&mut x),
            splitmix(&mut x),
            splitmix(&mut x),
        ];
        Rng { s: std::cell::Cell::new(s) }
    }

    /// Rng for case `case` of group `group` of property `prop` under `seed`.
    pub fn for_case(prop: &str, group: &str, seed: u64, case: u64) -> Rng {
        let mut h = fnv(prop.as_bytes());
        h = h.wrapping_mul(0x100000001b3) ^ fnv(group.as_bytes());
        h = h.wrapping_mul(0x100000001b3) ^ seed;
        h = h.wrapping_mul(0x100000001b3) ^ case.wrapping_mul(0x9E3779B97F4A7C15);
        Rng::new(h)
    }

    #[inline]
    pub fn next(&self) -> u64 {
        let mut s = self.s.get();
        let r = s[1].wrapping_mul(5).rotate_left(7).wrapping_mul(9);
        let t = s[1] << 17;
        s[2] ^= s[0];
        s[3] ^= s[1];
        s[1] ^= s[2];
        s[0] ^= s[3];
        s[2] ^= t;
        s[3] = s[3].rotate_left(45);
        self.s.set(s);
        r
    }

    /// uniform in 0..n (n > 0)
    #[inline]
    pub fn below(&self, n: usize) -> usize {
        debug_assert!(n > 0);
        (self.next() % n as u64) as usize
    }

    /// uniform in lo..=hi
    pub fn range(&self, lo: usize, hi: usize) -> usize {
        lo + self.below(hi - lo + 1)
    }

    pub fn chance(&self, num: usize, den: usize) -> bool {
        self.below(den) < num
    }

    pub fn base(&self) -> u8 {
        (self.next() & 3) as u8
    }

    pub fn pick<'a, T>(&self, xs: &'a [T]) -> &'a T {
        &xs[self.below(xs.len())]
    }

    pub fn shuffle<T>(&self, xs: &mut [T]) {
        for i in (1..xs.len()).rev() {
            let j = self.below(i + 1);
            xs.swap(i, j);
        }
    }

    pub fn bases(&self, n: usize, alpha: usize) -> Vec<u8> {
        (0..n).map(|_| self.below(alpha) as u8).collect()
    }
}

pub fn fnv(bytes: &[u8]) -> u64 {
    let mut h: u64 = 0xcbf29ce484222325;
    for b in bytes {
        h ^= *b as u64;
        h = h.wrapping_mul(0x100000001b3);
    }
    h
}

/// Incremental fnv-style hasher for "distinct case" accounting.
#[derive(Clone, Copy)]
pub struct H(pub u64);
impl H {
    pub fn new() -> H {
        H(0xcbf29ce484222325)
    }
    pub fn u(&mut self, v: u64) -> &mut Self {
        for i in 0..8 {
            self.0 ^= (v >> (8 * i)) & 0xff;
            self.0 = self.0.wrapping_mul(0x100000001b3);
        }
        self
    }
    pub fn b(&mut self, bytes: &[u8]) -> &mut Self {
        for b in bytes {
            self.0 ^= *b as u64;
            self.0 = self.0.wrapping_mul(0x100000001b3);
        }
        self.u(bytes.len() as u64)
    }
    pub fn get(&self) -> u64 {
        self.0
    }
}

pub fn ascii(s: &[u8]) -> String {
    s.iter()
        .map(|b| match b {
            0 => 'A',
            1 => 'C',
            2 => 'G',
            3 => 'T',
            _ => '?',
        })
        .collect()
}
