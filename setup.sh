#!/bin/sh
# Build the monitor harness (both native profiles) from files on disk only. Sanitizer lanes are built
# on first use by ./check (their build output is cached under harness/target-*).
set -e
cd "$(dirname "$0")/harness"
export CARGO_NET_OFFLINE=true
cargo build --release --bin vcheck
cargo build --profile relchk --bin vcheck
