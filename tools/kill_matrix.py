#!/usr/bin/env python3
"""Prints the kill matrix (markdown) from seeded/*/meta.json and result.json."""
import json, os, sys
V=os.path.dirname(os.path.dirname(os.path.abspath(__file__)))
rows=[]
for d in sorted(os.listdir(os.path.join(V,"seeded"))):
    mp=os.path.join(V,"seeded",d,"meta.json"); rp=os.path.join(V,"seeded",d,"result.json")
    if not os.path.exists(mp): continue
    m=json.load(open(mp)); r=json.load(open(rp)) if os.path.exists(rp) else {}
    cells=[]
    for tier,res in sorted(r.items()):
        for prop,o in sorted(res.items()):
            verdict={0:"missed",1:"CAUGHT",2:"inconclusive",3:"harness-error"}.get(o["exit"],str(o["exit"]))
            w=""
            for l in o.get("lines",[]):
                if "WITNESS" in l:
                    w=l.split(": ",1)[-1][:110]; break
            cells.append("%s %s (%s)%s"%(prop,verdict,tier,(" — "+w) if w and verdict=="CAUGHT" else ""))
    summ=(m.get("summary") or "")[:150].replace("|","/").replace("\n"," ")
    rows.append("| %s | %s | %s |"%(d,summ,"<br>".join(cells).replace("|","/")))
print("| id | change (sub-agent's summary, truncated) | checks run against it |")
print("|---|---|---|")
print("\n".join(rows))
