#!/usr/bin/env python3
"""seeded_run.py [ids...] [--props C01,C02] [--tier quick] [--scratch]
Applies each seeded change to /repo (git apply), runs ./check for the targeted property (or the given ones),
records the outcome in seeded/<id>/result.json and undoes the change (git checkout -- .).
--scratch: do the same on a scratch worktree of /repo (/tmp/sr/repo) with a scratch copy of /verif
(/tmp/sr/verif, VERIF_REPO override) so that /repo itself stays untouched (used while /repo is busy)."""
import json, os, subprocess, sys, time
VERIF=os.path.dirname(os.path.dirname(os.path.abspath(__file__)))
args=sys.argv[1:]
props=None; tier="quick"; ids=[]; scratch=False
i=0
while i<len(args):
    if args[i]=="--props": props=args[i+1].split(","); i+=2
    elif args[i]=="--tier": tier=args[i+1]; i+=2
    elif args[i]=="--scratch": scratch=True; i+=1
    else: ids.append(args[i]); i+=1
if not ids: ids=sorted(os.listdir(os.path.join(VERIF,"seeded")))
def sh(cmd, **kw): return subprocess.run(cmd, shell=True, text=True, stdout=subprocess.PIPE, stderr=subprocess.STDOUT, **kw)
REPO="/repo"; RUNVERIF=VERIF; ENV=dict(os.environ)
if scratch:
    REPO="/tmp/sr/repo"; RUNVERIF="/tmp/sr/verif"
    os.makedirs("/tmp/sr",exist_ok=True)
    if not os.path.isdir(REPO):
        print(sh("git -C /repo worktree add --detach %s HEAD"%REPO).stdout)
        sh("cp /repo/Cargo.lock %s/"%REPO)
    sh("git -C %s checkout -- . && git -C %s checkout --detach $(git -C /repo rev-parse HEAD)"%(REPO,REPO))
    print(sh("rsync -a --delete --exclude 'target*' --exclude logs --exclude replays --exclude evidence --exclude .git %s/ %s/"%(VERIF,RUNVERIF)).stdout)
    ENV["VERIF_REPO"]=REPO
st=sh("git -C %s status --porcelain --untracked-files=no"%REPO).stdout.strip()
if st:
    print("refusing: %s has local modifications:\n"%REPO+st); sys.exit(3)
for mid in ids:
    d=os.path.join(VERIF,"seeded",mid)
    meta=json.load(open(os.path.join(d,"meta.json")))
    targets=props or [meta["property"]]
    r=sh("git -C %s apply %s/patch.diff"%(REPO,d))
    if r.returncode!=0:
        print(mid,"PATCH DOES NOT APPLY",r.stdout); continue
    out={}
    try:
        for p in targets:
            t0=time.time()
            rr=sh("./check %s --tier %s"%(p,tier), cwd=RUNVERIF, timeout=3600, env=ENV)
            lines=[l for l in rr.stdout.splitlines() if l.startswith(("VIOLATION","WITNESS","INCONCLUSIVE","HARNESS-ERROR","BUILD-ERROR","OK ","KNOWN-FINDING"))]
            out[p]={"exit":rr.returncode,"wall_s":round(time.time()-t0,1),"lines":[l[:700] for l in lines[:6]]}
            print(mid,p,"exit",rr.returncode,"%.0fs"%(time.time()-t0), (lines[0][:300] if lines else rr.stdout[-300:]), flush=True)
    finally:
        sh("git -C %s checkout -- ."%REPO)
    resf=os.path.join(d,"result.json")
    old={}
    if os.path.exists(resf):
        try: old=json.load(open(resf))
        except Exception: old={}
    old.setdefault(tier+("-scratch" if scratch else ""),{}).update(out)
    json.dump(old,open(resf,"w"),indent=1)
